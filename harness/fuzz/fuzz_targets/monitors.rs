#![no_main]
//! Coverage-guided workload: libFuzzer's bytes choose a property and drive every generator
//! decision of one case; the monitors of the seeded workers decide. A monitor violation (or a
//! library panic) aborts, so libFuzzer stores the input as an artifact = the replay.
use libfuzzer_sys::fuzz_target;

fuzz_target!(|data: &[u8]| {
    if let Some(o) = dv::fuzzing::run_bytes(data, false) {
        if !o.violations.is_empty() || o.panic.is_some() {
            eprintln!("MONITOR-VIOLATION property={} {:?} panic={:?}", o.property, o.violations, o.panic);
            std::process::abort();
        }
    }
});
