//! Uniform wrapper over the two real automata (byte-wise / char-wise) and their hook accessors.
//! Everything here calls the real library; no behaviour is re-implemented.

use daachorse::errors::DaachorseError;
use daachorse::verif::{self, RawOutput, RawState, VerifOob};
use daachorse::{
    CharwiseDoubleArrayAhoCorasick, CharwiseDoubleArrayAhoCorasickBuilder, DoubleArrayAhoCorasick,
    DoubleArrayAhoCorasickBuilder, MatchKind, Serializable,
};

#[derive(Clone, Copy, Debug, PartialEq, Eq, Hash)]
pub enum Variant {
    Bytewise,
    Charwise,
}

#[derive(Clone, Copy, Debug, PartialEq, Eq, Hash)]
pub enum Entry {
    /// `build(patterns)`: value = position in the input.
    New,
    /// `build_with_values(patvals)`.
    WithValues,
}

#[derive(Clone, Copy, Debug, PartialEq, Eq, Hash)]
pub enum Method {
    Overlap,
    OverlapIter,
    Find,
    FindIter,
    NoSuffix,
    NoSuffixIter,
    Leftmost,
}

impl Method {
    pub const STANDARD: [Method; 6] = [
        Method::Overlap,
        Method::OverlapIter,
        Method::Find,
        Method::FindIter,
        Method::NoSuffix,
        Method::NoSuffixIter,
    ];
    pub fn name(self) -> &'static str {
        match self {
            Method::Overlap => "find_overlapping_iter",
            Method::OverlapIter => "find_overlapping_iter_from_iter",
            Method::Find => "find_iter",
            Method::FindIter => "find_iter_from_iter",
            Method::NoSuffix => "find_overlapping_no_suffix_iter",
            Method::NoSuffixIter => "find_overlapping_no_suffix_iter_from_iter",
            Method::Leftmost => "leftmost_find_iter",
        }
    }
    pub fn for_kind(kind: MatchKind) -> &'static [Method] {
        if kind == MatchKind::Standard {
            &Method::STANDARD
        } else {
            &[Method::Leftmost]
        }
    }
}

pub fn kind_name(k: MatchKind) -> &'static str {
    match k {
        MatchKind::Standard => "Standard",
        MatchKind::LeftmostLongest => "LeftmostLongest",
        MatchKind::LeftmostFirst => "LeftmostFirst",
    }
}

pub const KINDS: [MatchKind; 3] = [
    MatchKind::Standard,
    MatchKind::LeftmostLongest,
    MatchKind::LeftmostFirst,
];

#[derive(Clone, Copy, Debug, PartialEq, Eq, Hash)]
pub struct Spec {
    pub variant: Variant,
    pub kind: MatchKind,
    /// `None` = builder default.
    pub nfb: Option<u32>,
    pub entry: Entry,
}

pub type M<V> = (usize, usize, V);

pub const INLINE_CAP: usize = 48;

/// How a haystack is handed to the `AsRef`-generic entry points.
#[derive(Clone, Copy, Debug, PartialEq, Eq)]
pub enum Container {
    /// user-defined type with inline storage, passed by value
    Inline,
    /// `[u8; 16]` passed by value (byte-wise; the char-wise twin uses the inline string type)
    Array16,
    /// `Vec<u8>` / `String` passed by value
    Heap,
}

/// A byte string stored inline (no heap), like `[u8; N]` or `arrayvec::ArrayVec<u8, N>`.
#[derive(Clone, Copy)]
pub struct InlineBytes {
    buf: [u8; INLINE_CAP],
    len: usize,
}
impl InlineBytes {
    pub fn new(b: &[u8]) -> Self {
        let mut buf = [0xA5u8; INLINE_CAP];
        buf[..b.len()].copy_from_slice(b);
        InlineBytes { buf, len: b.len() }
    }
}
impl AsRef<[u8]> for InlineBytes {
    fn as_ref(&self) -> &[u8] {
        &self.buf[..self.len]
    }
}

/// A haystack whose `AsRef<[u8]>` is not pure (legal, safe Rust).
pub struct HostileBytes {
    calls: std::cell::Cell<usize>,
    first: Vec<u8>,
    second: Vec<u8>,
    switch_after: usize,
    alternate: bool,
}
impl AsRef<[u8]> for HostileBytes {
    fn as_ref(&self) -> &[u8] {
        let n = self.calls.get();
        self.calls.set(n + 1);
        let use_first = if self.alternate { n % 2 == 0 } else { n < self.switch_after };
        if use_first { &self.first } else { &self.second }
    }
}

/// A haystack whose `AsRef<str>` is not pure (legal, safe Rust).
pub struct HostileStr {
    calls: std::cell::Cell<usize>,
    first: String,
    second: String,
    switch_after: usize,
    alternate: bool,
}
impl AsRef<str> for HostileStr {
    fn as_ref(&self) -> &str {
        let n = self.calls.get();
        self.calls.set(n + 1);
        let use_first = if self.alternate { n % 2 == 0 } else { n < self.switch_after };
        if use_first { &self.first } else { &self.second }
    }
}

/// A string stored inline, like `arrayvec::ArrayString` / `heapless::String`.
#[derive(Clone, Copy)]
pub struct InlineStr {
    buf: [u8; INLINE_CAP],
    len: usize,
}
impl InlineStr {
    pub fn new(s: &str) -> Self {
        let mut buf = [b'~'; INLINE_CAP];
        buf[..s.len()].copy_from_slice(s.as_bytes());
        InlineStr { buf, len: s.len() }
    }
}
impl AsRef<str> for InlineStr {
    fn as_ref(&self) -> &str {
        std::str::from_utf8(&self.buf[..self.len]).expect("harness: inline str")
    }
}

#[derive(Clone)]
pub enum Pma<V> {
    B(DoubleArrayAhoCorasick<V>),
    C(CharwiseDoubleArrayAhoCorasick<V>),
}

#[derive(Clone, Copy, Debug, PartialEq, Eq)]
pub enum ErrKind {
    InvalidArgument,
    DuplicatePattern,
    AutomatonScale,
    InvalidConversion,
}

pub fn err_kind(e: &DaachorseError) -> ErrKind {
    match e {
        DaachorseError::InvalidArgument(_) => ErrKind::InvalidArgument,
        DaachorseError::DuplicatePattern(_) => ErrKind::DuplicatePattern,
        DaachorseError::AutomatonScale(_) => ErrKind::AutomatonScale,
        DaachorseError::InvalidConversion(_) => ErrKind::InvalidConversion,
    }
}

fn as_str(b: &[u8]) -> &str {
    std::str::from_utf8(b).expect("harness bug: char-wise case with non-UTF-8 data")
}

/// Builds a real automaton through the real builder.
pub fn build<V>(spec: Spec, patterns: &[Vec<u8>], values: &[V]) -> Result<Pma<V>, DaachorseError>
where
    V: Copy + TryFrom<usize>,
{
    match spec.variant {
        Variant::Bytewise => {
            // both orders of the two builder setters are exercised (deterministically per case)
            let kind_first = (patterns.len() + spec.nfb.unwrap_or(0) as usize) % 2 == 0;
            // a third of the builders are obtained through Default::default() instead of new()
            let mut b = if patterns.len() % 3 == 1 { DoubleArrayAhoCorasickBuilder::default() } else { DoubleArrayAhoCorasickBuilder::new() };
            if kind_first {
                b = b.match_kind(spec.kind);
            }
            if let Some(n) = spec.nfb {
                b = b.num_free_blocks(n);
            }
            if !kind_first {
                b = b.match_kind(spec.kind);
            }
            match spec.entry {
                Entry::New => b.build(patterns.iter()).map(Pma::B),
                Entry::WithValues => b
                    .build_with_values(patterns.iter().zip(values.iter().copied()))
                    .map(Pma::B),
            }
        }
        Variant::Charwise => {
            let kind_first = (patterns.len() + spec.nfb.unwrap_or(0) as usize) % 2 == 0;
            let mut b = if patterns.len() % 3 == 1 { CharwiseDoubleArrayAhoCorasickBuilder::default() } else { CharwiseDoubleArrayAhoCorasickBuilder::new() };
            if kind_first {
                b = b.match_kind(spec.kind);
            }
            if let Some(n) = spec.nfb {
                b = b.num_free_blocks(n);
            }
            if !kind_first {
                b = b.match_kind(spec.kind);
            }
            match spec.entry {
                Entry::New => b.build(patterns.iter().map(|p| as_str(p))).map(Pma::C),
                Entry::WithValues => b
                    .build_with_values(
                        patterns.iter().map(|p| as_str(p)).zip(values.iter().copied()),
                    )
                    .map(Pma::C),
            }
        }
    }
}

thread_local! {
    static STYLE: std::cell::Cell<u32> = std::cell::Cell::new(0);
}

/// Consumes a search iterator in one of several legal ways (the library may specialise any
/// `Iterator` method): plain `next()` loop, `take().collect()`, a few `next()` calls followed by a
/// by-value `for_each` / `fold` of the rest. All must produce the same sequence.
fn collect<V: Copy>(mut it: impl Iterator<Item = daachorse::Match<V>>, limit: usize) -> Vec<M<V>> {
    let style = STYLE.with(|s| {
        let v = s.get();
        s.set(v.wrapping_add(1));
        v
    });
    let mut out: Vec<M<V>> = Vec::new();
    match style % 4 {
        0 => {
            while out.len() < limit {
                match it.next() {
                    Some(m) => out.push((m.start(), m.end(), m.value())),
                    None => break,
                }
            }
        }
        1 => out = it.take(limit).map(|m| (m.start(), m.end(), m.value())).collect(),
        2 => {
            // k x next(), then the rest through by-value internal iteration (bounded: `limit` is an
            // upper bound on what a correct iterator yields, the step budget bounds a runaway one)
            let k = 1 + (style / 4) as usize % 3;
            for _ in 0..k {
                match it.next() {
                    Some(m) => out.push((m.start(), m.end(), m.value())),
                    None => return out,
                }
            }
            it.for_each(|m| {
                if out.len() < limit {
                    out.push((m.start(), m.end(), m.value()));
                }
            });
        }
        _ => {
            if let Some(m) = it.next() {
                out.push((m.start(), m.end(), m.value()));
                out = it.fold(out, |mut acc, m| {
                    if acc.len() < limit {
                        acc.push((m.start(), m.end(), m.value()));
                    }
                    acc
                });
            }
        }
    }
    out
}

impl<V: Copy> Pma<V> {
    pub fn variant(&self) -> Variant {
        match self {
            Pma::B(_) => Variant::Bytewise,
            Pma::C(_) => Variant::Charwise,
        }
    }

    /// Runs one search method of the real automaton over the whole haystack, consuming at most
    /// `limit` matches (a runaway iterator becomes a mismatch, not a hang), under a logical step
    /// budget (None = unlimited). Returns (matches, steps taken).
    pub fn search(&self, m: Method, hay: &[u8], limit: usize, budget: Option<u64>) -> (Vec<M<V>>, u64) {
        verif::reset_steps();
        verif::set_step_budget(budget);
        let r = match self {
            Pma::B(p) => match m {
                Method::Overlap => collect(p.find_overlapping_iter(hay), limit),
                Method::OverlapIter => {
                    collect(p.find_overlapping_iter_from_iter(hay.iter().copied()), limit)
                }
                Method::Find => collect(p.find_iter(hay), limit),
                Method::FindIter => collect(p.find_iter_from_iter(hay.iter().copied()), limit),
                Method::NoSuffix => collect(p.find_overlapping_no_suffix_iter(hay), limit),
                Method::NoSuffixIter => collect(
                    p.find_overlapping_no_suffix_iter_from_iter(hay.iter().copied()),
                    limit,
                ),
                Method::Leftmost => collect(p.leftmost_find_iter(hay), limit),
            },
            Pma::C(p) => {
                let s = as_str(hay);
                match m {
                    Method::Overlap => collect(p.find_overlapping_iter(s), limit),
                    Method::OverlapIter => collect(
                        unsafe { p.find_overlapping_iter_from_iter(hay.iter().copied()) },
                        limit,
                    ),
                    Method::Find => collect(p.find_iter(s), limit),
                    Method::FindIter => {
                        collect(unsafe { p.find_iter_from_iter(hay.iter().copied()) }, limit)
                    }
                    Method::NoSuffix => collect(p.find_overlapping_no_suffix_iter(s), limit),
                    Method::NoSuffixIter => collect(
                        unsafe { p.find_overlapping_no_suffix_iter_from_iter(hay.iter().copied()) },
                        limit,
                    ),
                    Method::Leftmost => collect(p.leftmost_find_iter(s), limit),
                }
            }
        };
        verif::set_step_budget(None);
        (r, verif::steps())
    }

    /// The slice/str entry points are generic over `AsRef<[u8]>` / `AsRef<str>`; this runs one of
    /// them with the haystack handed over *by value* in a container that stores its bytes inline
    /// (like `[u8; N]`, `arrayvec::ArrayString`, `smol_str`), or on the heap (`Vec`, `String`,
    /// `Box`). The bytes must not exceed `INLINE_CAP`.
    pub fn search_in_container(&self, m: Method, hay: &[u8], c: Container, limit: usize, budget: Option<u64>) -> Vec<M<V>> {
        verif::reset_steps();
        verif::set_step_budget(budget);
        let r = match self {
            Pma::B(p) => match c {
                Container::Inline => {
                    let h = InlineBytes::new(hay);
                    match m {
                        Method::Overlap => collect(p.find_overlapping_iter(h), limit),
                        Method::Find => collect(p.find_iter(h), limit),
                        Method::NoSuffix => collect(p.find_overlapping_no_suffix_iter(h), limit),
                        _ => collect(p.leftmost_find_iter(h), limit),
                    }
                }
                Container::Array16 => {
                    let mut a = [0u8; 16];
                    a.copy_from_slice(&hay[..16]);
                    match m {
                        Method::Overlap => collect(p.find_overlapping_iter(a), limit),
                        Method::Find => collect(p.find_iter(a), limit),
                        Method::NoSuffix => collect(p.find_overlapping_no_suffix_iter(a), limit),
                        _ => collect(p.leftmost_find_iter(a), limit),
                    }
                }
                Container::Heap => {
                    let h: Vec<u8> = hay.to_vec();
                    match m {
                        Method::Overlap => collect(p.find_overlapping_iter(h), limit),
                        Method::Find => collect(p.find_iter(h), limit),
                        Method::NoSuffix => collect(p.find_overlapping_no_suffix_iter(h), limit),
                        _ => collect(p.leftmost_find_iter(h), limit),
                    }
                }
            },
            Pma::C(p) => match c {
                Container::Inline | Container::Array16 => {
                    let h = InlineStr::new(as_str(hay));
                    match m {
                        Method::Overlap => collect(p.find_overlapping_iter(h), limit),
                        Method::Find => collect(p.find_iter(h), limit),
                        Method::NoSuffix => collect(p.find_overlapping_no_suffix_iter(h), limit),
                        _ => collect(p.leftmost_find_iter(h), limit),
                    }
                }
                Container::Heap => {
                    let h: String = as_str(hay).to_string();
                    match m {
                        Method::Overlap => collect(p.find_overlapping_iter(h), limit),
                        Method::Find => collect(p.find_iter(h), limit),
                        Method::NoSuffix => collect(p.find_overlapping_no_suffix_iter(h), limit),
                        _ => collect(p.leftmost_find_iter(h), limit),
                    }
                }
            },
        };
        verif::set_step_budget(None);
        r
    }

    /// Runs a slice/str entry point with a haystack whose (safe) `AsRef` implementation is not
    /// pure: it answers with `first` for the first `switch_after` calls and with `second` afterwards
    /// (or alternates between the two). The results are unspecified; what is observed is that the
    /// search stays memory safe (the build's sanitizer aborts otherwise). Returns the number of
    /// matches produced.
    pub fn search_hostile(&self, m: Method, first: &[u8], second: &[u8], switch_after: usize, alternate: bool, limit: usize, budget: Option<u64>) -> usize {
        verif::reset_steps();
        verif::set_step_budget(budget);
        let n = match self {
            Pma::B(p) => {
                let h = HostileBytes { calls: std::cell::Cell::new(0), first: first.to_vec(), second: second.to_vec(), switch_after, alternate };
                match m {
                    Method::Overlap => p.find_overlapping_iter(h).take(limit).count(),
                    Method::Find => p.find_iter(h).take(limit).count(),
                    Method::NoSuffix => p.find_overlapping_no_suffix_iter(h).take(limit).count(),
                    _ => p.leftmost_find_iter(h).take(limit).count(),
                }
            }
            Pma::C(p) => {
                let h = HostileStr { calls: std::cell::Cell::new(0), first: as_str(first).to_string(), second: as_str(second).to_string(), switch_after, alternate };
                match m {
                    Method::Overlap => p.find_overlapping_iter(h).take(limit).count(),
                    Method::Find => p.find_iter(h).take(limit).count(),
                    Method::NoSuffix => p.find_overlapping_no_suffix_iter(h).take(limit).count(),
                    _ => p.leftmost_find_iter(h).take(limit).count(),
                }
            }
        };
        verif::set_step_budget(None);
        n
    }

    /// `search`, with a panic of the library turned into `Err(message)`.
    pub fn try_search(&self, m: Method, hay: &[u8], limit: usize, budget: Option<u64>) -> Result<(Vec<M<V>>, u64), String> {
        let r = std::panic::catch_unwind(std::panic::AssertUnwindSafe(|| self.search(m, hay, limit, budget)));
        verif::set_step_budget(None);
        r.map_err(|e| {
            e.downcast_ref::<String>().cloned().or_else(|| e.downcast_ref::<&str>().map(|s| (*s).to_string())).unwrap_or_else(|| "panic".to_string())
        })
    }

    pub fn num_states(&self) -> usize {
        match self {
            Pma::B(p) => p.num_states(),
            Pma::C(p) => p.num_states(),
        }
    }

    pub fn heap_bytes(&self) -> usize {
        match self {
            Pma::B(p) => p.heap_bytes(),
            Pma::C(p) => p.heap_bytes(),
        }
    }

    pub fn kind(&self) -> MatchKind {
        match self {
            Pma::B(p) => p.verif_match_kind(),
            Pma::C(p) => p.verif_match_kind(),
        }
    }

    // ---- hook accessors -------------------------------------------------------------------

    /// (state table length, output table length)
    pub fn lens(&self) -> (usize, usize) {
        match self {
            Pma::B(p) => p.verif_lens(),
            Pma::C(p) => p.verif_lens(),
        }
    }

    pub fn state(&self, idx: u32) -> Option<RawState> {
        match self {
            Pma::B(p) => p.verif_state(idx),
            Pma::C(p) => p.verif_state(idx),
        }
    }

    pub fn outputs(&self) -> Vec<RawOutput<V>> {
        match self {
            Pma::B(p) => p.verif_outputs(),
            Pma::C(p) => p.verif_outputs(),
        }
    }

    /// The implementation's own child function on a *label* (byte, or mapped code).
    pub fn child(&self, state: u32, label: u32) -> Result<Option<u32>, VerifOob> {
        match self {
            Pma::B(p) => p.verif_child(state, label as u8),
            Pma::C(p) => p.verif_child(state, label),
        }
    }

    /// The implementation's own transition function on a *symbol* (byte, or code point).
    ///
    /// # Safety
    /// Only after the closure monitor passed for this automaton.
    pub unsafe fn next_state(&self, state: u32, sym: u32) -> u32 {
        match self {
            Pma::B(p) => p.verif_next_state(state, sym as u8),
            Pma::C(p) => p.verif_next_state(state, char::from_u32(sym).expect("harness: bad sym")),
        }
    }

    /// Symbol universe of this automaton: every (symbol, label) pair the scan loop can look up,
    /// plus representatives of symbols that map to no label.
    /// Byte-wise: all 256 bytes, label = byte. Char-wise: every code point the mapper maps, plus
    /// one unmapped code point inside the mapper table (if any) and one above its end.
    pub fn symbols(&self) -> Vec<(u32, Option<u32>)> {
        match self {
            Pma::B(_) => (0u32..256).map(|b| (b, Some(b))).collect(),
            Pma::C(p) => {
                let (table, _) = p.verif_mapper();
                let mut v = Vec::new();
                let mut inside_unmapped = None;
                for (cp, &code) in table.iter().enumerate() {
                    let cp = cp as u32;
                    if char::from_u32(cp).is_none() {
                        continue;
                    }
                    // use the implementation's own lookup, not the raw table
                    match p.verif_map(char::from_u32(cp).unwrap()) {
                        Some(c) => {
                            debug_assert_eq!(c, code);
                            v.push((cp, Some(c)));
                        }
                        None => {
                            if inside_unmapped.is_none() {
                                inside_unmapped = Some(cp);
                            }
                        }
                    }
                }
                if let Some(cp) = inside_unmapped {
                    v.push((cp, None));
                }
                for cand in [table.len() as u32, 0x10FFFF, 0xE000, 0xD7FF] {
                    if cand as usize >= table.len() && char::from_u32(cand).is_some() {
                        if let Some(ch) = char::from_u32(cand) {
                            if p.verif_map(ch).is_none() {
                                v.push((cand, None));
                                break;
                            }
                        }
                    }
                }
                v
            }
        }
    }

    /// Char-wise only: (mapper table, alphabet size).
    pub fn mapper(&self) -> Option<(Vec<u32>, u32)> {
        match self {
            Pma::B(_) => None,
            Pma::C(p) => Some(p.verif_mapper()),
        }
    }

    /// Number of UTF-8 bytes of a symbol in the haystack.
    pub fn sym_width(&self, sym: u32) -> usize {
        match self {
            Pma::B(_) => 1,
            Pma::C(_) => char::from_u32(sym).map_or(1, char::len_utf8),
        }
    }
}

impl<V: Copy + Serializable> Pma<V> {
    pub fn serialize(&self) -> Vec<u8> {
        match self {
            Pma::B(p) => p.serialize(),
            Pma::C(p) => p.serialize(),
        }
    }

    /// # Safety
    /// `src` must start with bytes produced by `serialize` of the same variant and value type.
    pub unsafe fn deserialize(variant: Variant, src: &[u8]) -> (Self, &[u8]) {
        match variant {
            Variant::Bytewise => {
                let (p, r) = DoubleArrayAhoCorasick::<V>::deserialize_unchecked(src);
                (Pma::B(p), r)
            }
            Variant::Charwise => {
                let (p, r) = CharwiseDoubleArrayAhoCorasick::<V>::deserialize_unchecked(src);
                (Pma::C(p), r)
            }
        }
    }
}

impl<V: Copy + Eq> Pma<V> {
    pub fn same(&self, other: &Self) -> bool {
        match (self, other) {
            (Pma::B(a), Pma::B(b)) => a == b,
            (Pma::C(a), Pma::C(b)) => a == b,
            _ => false,
        }
    }
}
