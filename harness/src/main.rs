//! dv — runtime-monitoring harness for daachorse (see /verif/DESIGN.md).
//!
//!   dv worker  --prop C01 --tier quick --seed 1 --shard 0 --nshards 16 --out r.json --journal j.txt
//!   dv replay  --prop C01 --tier quick --seed 1 --case 42
//!   dv selftest
//!
//! Case `idx` of a property is a pure function of (seed, property, tier, mode, idx); shards take
//! idx ≡ shard (mod nshards). The journal receives the index of a case *before* it runs, so an
//! abort-style sanitizer report (SIGABRT / ASan / Miri) can be attributed to a case.


use dv::common::{Ctx, Mode, Tier};
use dv::json::J;
use dv::{oracle, props, report};
use std::cell::RefCell;
use std::collections::HashMap;
use std::io::Write;
use std::panic::{catch_unwind, AssertUnwindSafe};

thread_local! {
    static LAST_PANIC: RefCell<Option<String>> = RefCell::new(None);
}

fn install_panic_hook(print: bool) {
    std::panic::set_hook(Box::new(move |info| {
        let msg = if let Some(s) = info.payload().downcast_ref::<&str>() {
            (*s).to_string()
        } else if let Some(s) = info.payload().downcast_ref::<String>() {
            s.clone()
        } else {
            "non-string panic payload".to_string()
        };
        let loc = info.location().map_or(String::new(), |l| format!(" at {}:{}:{}", l.file(), l.line(), l.column()));
        let full = format!("{msg}{loc}");
        if print || msg.contains("unsafe precondition") || msg.contains("cannot unwind") {
            // a non-unwinding panic (std's unsafe-precondition checks) is about to abort the
            // process: leave the reason on stderr for the driver
            eprintln!("panic: {full}");
        }
        LAST_PANIC.with(|p| *p.borrow_mut() = Some(full));
    }));
}

fn parse_args(args: &[String]) -> HashMap<String, String> {
    let mut m = HashMap::new();
    let mut i = 0;
    while i < args.len() {
        if let Some(k) = args[i].strip_prefix("--") {
            if i + 1 < args.len() && !args[i + 1].starts_with("--") {
                m.insert(k.to_string(), args[i + 1].clone());
                i += 2;
            } else {
                m.insert(k.to_string(), "1".to_string());
                i += 1;
            }
        } else {
            i += 1;
        }
    }
    m
}

fn make_ctx(a: &HashMap<String, String>, replay: bool) -> (String, Ctx) {
    let prop = a.get("prop").cloned().unwrap_or_else(|| {
        eprintln!("--prop required");
        std::process::exit(2)
    });
    let tier = match a.get("tier").map(String::as_str) {
        Some("thorough") => Tier::Thorough,
        _ => Tier::Quick,
    };
    let mode = match a.get("mode").map(String::as_str) {
        Some("miri") => Mode::Miri,
        Some("asan") => Mode::Asan,
        Some("tsan") => Mode::Tsan,
        _ => Mode::Native,
    };
    let seed: u64 = a.get("seed").and_then(|s| s.parse().ok()).unwrap_or(1);
    let flavour = a.get("flavour").cloned().unwrap_or_else(|| {
        if cfg!(debug_assertions) { "dbg".to_string() } else { "rel".to_string() }
    });
    let rep = report::Report::new(&prop);
    (prop, Ctx { tier, mode, seed, rep, replay, flavour })
}

fn run_one(prop: &str, ctx: &mut Ctx, idx: u64) {
    LAST_PANIC.with(|p| *p.borrow_mut() = None);
    let r = catch_unwind(AssertUnwindSafe(|| props::run_case(prop, ctx, idx)));
    daachorse::verif::set_step_budget(None);
    if r.is_err() {
        let msg = LAST_PANIC.with(|p| p.borrow_mut().take()).unwrap_or_else(|| "panic".into());
        if msg.starts_with("harness") {
            ctx.rep.count("harness_errors", 1);
            ctx.rep.note("harness_errors", &format!("case {idx}: {msg}"));
        } else if msg.contains(daachorse::verif::BUDGET_PANIC_MESSAGE) {
            ctx.rep.violation(
                "step-budget",
                "a search exceeded its logical step budget (does not terminate / not linear)".into(),
                idx,
                J::obj().set("panic", J::s(&msg)),
            );
        } else if matches!(prop, "C01" | "C02" | "C03" | "C04" | "C05" | "C06" | "C09" | "C10") {
            // a search / build / round trip that panics did not deliver the result these
            // properties promise
            ctx.rep.violation(
                "panic",
                format!("the library panicked while the case was evaluated: {msg}"),
                idx,
                J::obj().set("panic", J::s(&msg)),
            );
        } else {
            // C07, C08, C11-C15 decide panics where they compare a subject with a reference
            // (one variant / setting / entry point panics and the other does not); a panic that
            // reaches this point is outside what the property states: recorded, run inconclusive
            ctx.rep.count("library_panics_outside_this_property", 1);
            ctx.rep.note("library_panics", &format!("case {idx}: {msg}"));
        }
    }
}

fn main() {
    let args: Vec<String> = std::env::args().collect();
    if args.len() < 2 {
        eprintln!("usage: dv worker|replay|selftest ...");
        std::process::exit(2);
    }
    let a = parse_args(&args[2..]);
    match args[1].as_str() {
        "selftest" => match oracle::self_test() {
            Ok(()) => println!("selftest ok"),
            Err(e) => {
                println!("selftest FAILED: {e}");
                std::process::exit(3);
            }
        },
        "worker" => {
            install_panic_hook(false);
            if let Err(e) = oracle::self_test() {
                println!("selftest FAILED: {e}");
                std::process::exit(3);
            }
            let (prop, mut ctx) = make_ctx(&a, false);
            let shard: u64 = a.get("shard").and_then(|s| s.parse().ok()).unwrap_or(0);
            let nshards: u64 = a.get("nshards").and_then(|s| s.parse().ok()).unwrap_or(1);
            let out = a.get("out").cloned().unwrap_or_else(|| "/dev/stdout".into());
            if out != "/dev/stdout" {
                ctx.rep.side_path = Some(format!("{out}.violations"));
            }
            let mut n = props::num_cases(&prop, &ctx);
            if let Some(c) = a.get("cases").and_then(|s| s.parse::<u64>().ok()) {
                n = c;
            }
            if let Some(f) = a.get("scale").and_then(|s| s.parse::<f64>().ok()) {
                // mutation-trial matrix only: a fraction of the registered budget
                n = ((n as f64) * f).ceil() as u64;
            }
            let first: u64 = a.get("first").and_then(|s| s.parse().ok()).unwrap_or(0);
            let mut journal = a.get("journal").map(|p| {
                std::fs::OpenOptions::new().create(true).append(true).open(p).expect("harness: journal")
            });
            // per-case wall-clock watchdog: a case normally takes milliseconds (the largest probes a
            // few seconds). A case that does not come back (e.g. a builder that loops) must not stall
            // the whole check until the driver's watchdog fires: the worker gives up on it.
            let heartbeat = std::sync::Arc::new(std::sync::atomic::AtomicU64::new(0));
            let cur_case = std::sync::Arc::new(std::sync::atomic::AtomicU64::new(u64::MAX));
            // (not under Miri, which insists that every thread is joined before the main thread ends)
            if ctx.mode != Mode::Miri {
                let (hb, cc) = (heartbeat.clone(), cur_case.clone());
                let limit_s: u64 = a.get("case-timeout").and_then(|s| s.parse().ok()).unwrap_or(match ctx.mode { Mode::Miri => 1500, Mode::Native => 900, _ => 900 });
                let t0 = std::time::Instant::now();
                std::thread::spawn(move || loop {
                    std::thread::sleep(std::time::Duration::from_secs(2));
                    let started = hb.load(std::sync::atomic::Ordering::Relaxed);
                    let now = t0.elapsed().as_secs();
                    if started != 0 && now.saturating_sub(started) > limit_s {
                        eprintln!("CASE-TIMEOUT case {} did not finish within {} s", cc.load(std::sync::atomic::Ordering::Relaxed), limit_s);
                        std::process::exit(98);
                    }
                });
                heartbeat.store(1, std::sync::atomic::Ordering::Relaxed);
            }
            let t_start = std::time::Instant::now();
            let mut idx = first + shard;
            while idx < n {
                heartbeat.store(t_start.elapsed().as_secs().max(1), std::sync::atomic::Ordering::Relaxed);
                cur_case.store(idx, std::sync::atomic::Ordering::Relaxed);
                if let Some(j) = journal.as_mut() {
                    let _ = writeln!(j, "{idx}");
                    let _ = j.flush();
                }
                run_one(&prop, &mut ctx, idx);
                let key = format!("cases_run_in_{}_build", ctx.flavour);
                ctx.rep.count(&key, 1);
                idx += nshards;
            }
            if let Some(j) = journal.as_mut() {
                let _ = writeln!(j, "done");
            }
            ctx.rep.count("cases_planned_total", n);
            ctx.rep.note("flavours", &ctx.flavour.clone());
            ctx.rep.write_to(&out).expect("harness: write report");
        }
        "replay" => {
            install_panic_hook(true);
            let (prop, mut ctx) = make_ctx(&a, true);
            let idx: u64 = a.get("case").and_then(|s| s.parse().ok()).unwrap_or(0);
            ctx.rep.max_violations = 50;
            run_one(&prop, &mut ctx, idx);
            println!("--- replay of {prop} case {idx} (seed {}, tier {:?}, mode {:?}) ---", ctx.seed, ctx.tier, ctx.mode);
            for v in &ctx.rep.violations {
                println!("VIOLATION-DETAIL monitor={} {}", v.monitor, v.message);
                println!("{}", v.detail.to_string());
            }
            for k in &ctx.rep.known {
                println!("KNOWN-FINDING-DETAIL {} {}", k.finding_id, k.message);
            }
            if ctx.rep.violations.is_empty() {
                println!("no violation reproduced");
                std::process::exit(0);
            }
            std::process::exit(1);
        }
        "fuzz-replay" => {
            install_panic_hook(true);
            let path = args.get(2).cloned().unwrap_or_default();
            let data = std::fs::read(&path).expect("harness: read artifact");
            match dv::fuzzing::run_bytes(&data, true) {
                None => println!("input too short"),
                Some(o) => {
                    println!("--- fuzz artifact {path}: property {} ---", o.property);
                    for v in &o.violations {
                        println!("VIOLATION-DETAIL {v}");
                    }
                    if let Some(p) = &o.panic {
                        println!("VIOLATION-DETAIL panic: {p}");
                    }
                    if !o.violations.is_empty() || o.panic.is_some() {
                        std::process::exit(1);
                    }
                    println!("no violation reproduced");
                }
            }
        }
        other => {
            eprintln!("unknown command {other}");
            std::process::exit(2);
        }
    }
}
