//! Case model shared by generators, monitors and reports.

use crate::json::{bytes_j, J};
use crate::pma::{kind_name, Entry, Spec, Variant};
use crate::rng::fnv;

#[derive(Clone, Debug)]
pub struct Case {
    pub spec: Spec,
    pub patterns: Vec<Vec<u8>>,
    /// values[i] registered for patterns[i] (for `Entry::New` this is i).
    pub values: Vec<u32>,
    pub haystacks: Vec<Vec<u8>>,
    /// all patterns and haystacks are valid UTF-8
    pub utf8: bool,
    pub workload: &'static str,
}

impl Case {
    pub fn digest(&self) -> u64 {
        let mut buf: Vec<u8> = Vec::new();
        buf.extend_from_slice(format!("{:?}", self.spec).as_bytes());
        for (p, v) in self.patterns.iter().zip(self.values.iter()) {
            buf.extend_from_slice(&(p.len() as u32).to_le_bytes());
            buf.extend_from_slice(p);
            buf.extend_from_slice(&v.to_le_bytes());
        }
        for h in &self.haystacks {
            buf.extend_from_slice(&(h.len() as u32).to_le_bytes());
            buf.extend_from_slice(h);
        }
        fnv(&buf)
    }

    pub fn spec_j(spec: &Spec) -> J {
        J::obj()
            .set(
                "variant",
                J::s(match spec.variant {
                    Variant::Bytewise => "bytewise",
                    Variant::Charwise => "charwise",
                }),
            )
            .set("match_kind", J::s(kind_name(spec.kind)))
            .set("num_free_blocks", spec.nfb.map_or(J::s("default"), |n| J::u(u64::from(n))))
            .set(
                "entry",
                J::s(match spec.entry {
                    Entry::New => "build(patterns)",
                    Entry::WithValues => "build_with_values(patvals)",
                }),
            )
    }

    /// Full case (truncated for very large ones; the replay regenerates it from the seed anyway).
    pub fn to_json(&self, max_patterns: usize, max_hay: usize) -> J {
        let mut j = J::obj()
            .set("workload", J::s(self.workload))
            .set("spec", Self::spec_j(&self.spec))
            .set("num_patterns", J::us(self.patterns.len()))
            .set(
                "patterns",
                J::arr(self.patterns.iter().take(max_patterns).map(|p| {
                    if p.len() > 160 {
                        J::obj().set("len", J::us(p.len())).set("head", bytes_j(&p[..floor_boundary(p, 80)]))
                    } else {
                        bytes_j(p)
                    }
                })),
            )
            .set(
                "values",
                J::arr(self.values.iter().take(max_patterns).map(|&v| J::u(u64::from(v)))),
            );
        if self.patterns.len() > max_patterns {
            j = j.set("patterns_truncated", J::Bool(true));
        }
        j.set(
            "haystacks",
            J::arr(self.haystacks.iter().take(4).map(|h| {
                if h.len() > max_hay {
                    J::obj().set("len", J::us(h.len())).set("head", bytes_j(&h[..floor_boundary(h, max_hay)]))
                } else {
                    bytes_j(h)
                }
            })),
        )
        .set("num_haystacks", J::us(self.haystacks.len()))
    }
}

fn floor_boundary(h: &[u8], mut i: usize) -> usize {
    while i > 0 && i < h.len() && (h[i] & 0xC0) == 0x80 {
        i -= 1;
    }
    i
}

pub fn matches_j(ms: &[(usize, usize, u32)], max: usize) -> J {
    let mut a: Vec<J> = ms
        .iter()
        .take(max)
        .map(|&(s, e, v)| J::arr([J::us(s), J::us(e), J::u(u64::from(v))]))
        .collect();
    if ms.len() > max {
        a.push(J::Str(format!("... {} more", ms.len() - max)));
    }
    J::Arr(a)
}
