//! Per-worker report: counters, distinct non-trivial case digests, samples, violations.

use crate::json::J;
use std::collections::{BTreeMap, BTreeSet};
use std::io::Write;

pub struct Violation {
    pub property: String,
    pub monitor: String,
    pub message: String,
    pub case_idx: u64,
    pub detail: J,
}

pub struct Known {
    pub finding_id: String,
    pub message: String,
    pub case_idx: u64,
}

pub struct Report {
    pub property: String,
    pub evaluations: u64,
    pub nontrivial: BTreeSet<u64>,
    pub counters: BTreeMap<String, u64>,
    pub maxima: BTreeMap<String, f64>,
    pub sets: BTreeMap<String, BTreeSet<String>>,
    pub samples: Vec<J>,
    pub violations: Vec<Violation>,
    pub known: Vec<Known>,
    pub max_samples: usize,
    pub max_violations: usize,
    /// violations are also appended here as they are found, so that they survive a worker that is
    /// later aborted by a sanitizer report or the per-case watchdog
    pub side_path: Option<String>,
}

impl Report {
    pub fn new(property: &str) -> Self {
        Report {
            property: property.to_string(),
            evaluations: 0,
            nontrivial: BTreeSet::new(),
            counters: BTreeMap::new(),
            maxima: BTreeMap::new(),
            sets: BTreeMap::new(),
            samples: Vec::new(),
            violations: Vec::new(),
            known: Vec::new(),
            max_samples: 3,
            max_violations: 5,
            side_path: None,
        }
    }
    pub fn count(&mut self, k: &str, n: u64) {
        *self.counters.entry(k.to_string()).or_insert(0) += n;
    }
    pub fn max(&mut self, k: &str, v: f64) {
        let e = self.maxima.entry(k.to_string()).or_insert(f64::MIN);
        if v > *e {
            *e = v;
        }
    }
    pub fn note(&mut self, set: &str, item: &str) {
        let s = self.sets.entry(set.to_string()).or_default();
        if s.len() < 4096 {
            s.insert(item.to_string());
        }
    }
    pub fn sample(&mut self, j: impl FnOnce() -> J) {
        if self.samples.len() < self.max_samples {
            self.samples.push(j());
        }
    }
    pub fn violation(&mut self, monitor: &str, message: String, case_idx: u64, detail: J) {
        self.count("violations_total", 1);
        if self.violations.len() < self.max_violations {
            if let Some(p) = &self.side_path {
                if let Ok(mut f) = std::fs::OpenOptions::new().create(true).append(true).open(p) {
                    let line = J::obj()
                        .set("property", J::s(&self.property))
                        .set("monitor", J::s(monitor))
                        .set("message", J::s(&message))
                        .set("case_idx", J::u(case_idx))
                        .set("detail", detail.clone())
                        .to_string();
                    let _ = writeln!(f, "{line}");
                }
            }
            self.violations.push(Violation {
                property: self.property.clone(),
                monitor: monitor.to_string(),
                message,
                case_idx,
                detail,
            });
        }
    }

    pub fn to_json(&self) -> J {
        J::obj()
            .set("property", J::s(&self.property))
            .set("evaluations", J::u(self.evaluations))
            .set(
                "nontrivial",
                J::arr(self.nontrivial.iter().map(|d| J::Str(format!("{d:016x}")))),
            )
            .set("counters", J::from_map(&self.counters))
            .set(
                "maxima",
                J::Obj(self.maxima.iter().map(|(k, v)| (k.clone(), J::Num(*v))).collect()),
            )
            .set(
                "sets",
                J::Obj(
                    self.sets
                        .iter()
                        .map(|(k, v)| (k.clone(), J::arr(v.iter().map(|s| J::s(s)))))
                        .collect(),
                ),
            )
            .set("samples", J::Arr(self.samples.clone()))
            .set(
                "violations",
                J::arr(self.violations.iter().map(|v| {
                    J::obj()
                        .set("property", J::s(&v.property))
                        .set("monitor", J::s(&v.monitor))
                        .set("message", J::s(&v.message))
                        .set("case_idx", J::u(v.case_idx))
                        .set("detail", v.detail.clone())
                })),
            )
            .set(
                "known",
                J::arr(self.known.iter().map(|k| {
                    J::obj()
                        .set("finding_id", J::s(&k.finding_id))
                        .set("message", J::s(&k.message))
                        .set("case_idx", J::u(k.case_idx))
                })),
            )
    }

    pub fn write_to(&self, path: &str) -> std::io::Result<()> {
        let tmp = format!("{path}.tmp");
        {
            let mut f = std::fs::File::create(&tmp)?;
            f.write_all(self.to_json().to_string().as_bytes())?;
            f.write_all(b"\n")?;
        }
        std::fs::rename(&tmp, path)
    }
}
