//! dv — runtime-monitoring harness for daachorse (library part shared by the `dv` binary and the
//! cargo-fuzz target).

pub mod case;
pub mod common;
pub mod gen;
pub mod json;
pub mod monitor;
pub mod oracle;
pub mod pma;
pub mod props;
pub mod report;
pub mod rng;
pub mod fuzzing;
