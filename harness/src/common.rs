//! Shared plumbing for the per-property workers.

use crate::case::{matches_j, Case};
use crate::json::{bytes_j, J};
use crate::monitor::{build_trie, check_structure, Opts, StructReport, SymTrie};
use crate::oracle::{self, PatTrie, O};
use crate::pma::{self, kind_name, Method, Pma, Spec, Variant, M};
use crate::report::Report;
use daachorse::MatchKind;

#[derive(Clone, Copy, Debug, PartialEq, Eq)]
pub enum Tier {
    Quick,
    Thorough,
}

/// Execution environment of this worker process (sizes are scaled down under slow sanitizers).
#[derive(Clone, Copy, Debug, PartialEq, Eq)]
pub enum Mode {
    Native,
    Asan,
    Tsan,
    Miri,
}

pub struct Ctx {
    pub tier: Tier,
    pub mode: Mode,
    pub seed: u64,
    pub rep: Report,
    /// replay mode: print the full case and every comparison
    pub replay: bool,
    /// build flavour name for evidence ("dbg", "rel", "asan", ...)
    pub flavour: String,
}

impl Ctx {
    pub fn slow(&self) -> bool {
        self.mode == Mode::Miri
    }
    /// does this build abort on an out-of-bounds unchecked access?
    pub fn can_probe(&self) -> bool {
        cfg!(debug_assertions) || self.mode == Mode::Asan || self.mode == Mode::Miri || self.flavour == "fuzz"
    }
    pub fn transition_cap(&self) -> u64 {
        match (self.mode, self.tier) {
            (Mode::Miri, _) => 20_000,
            (Mode::Asan | Mode::Tsan, _) => 2_000_000,
            (Mode::Native, Tier::Quick) => 6_000_000,
            (Mode::Native, Tier::Thorough) => 80_000_000,
        }
    }
}

pub fn to_m(o: &[O], values: &[u32]) -> Vec<M<u32>> {
    o.iter().map(|&(s, e, i)| (s, e, values[i])).collect()
}

pub fn model(method: Method, kind: MatchKind, occ: &[O]) -> Vec<O> {
    match method {
        Method::Overlap | Method::OverlapIter => oracle::overlap(occ),
        Method::Find | Method::FindIter => oracle::find(occ),
        Method::NoSuffix | Method::NoSuffixIter => oracle::nosuffix(occ),
        Method::Leftmost => {
            if kind == MatchKind::LeftmostFirst {
                oracle::leftmost_first(occ)
            } else {
                oracle::leftmost_longest(occ)
            }
        }
    }
}

/// Loose logical step budget: a pure termination guard (a hang becomes a panic, not a time-out).
pub fn loose_budget(hay_len: usize, num_states: usize) -> Option<u64> {
    Some(10_000 + 4 * (hay_len as u64 + 2) * (num_states as u64 + 2))
}

pub fn first_diff<T: PartialEq>(a: &[T], b: &[T]) -> usize {
    a.iter().zip(b.iter()).position(|(x, y)| x != y).unwrap_or(a.len().min(b.len()))
}

pub fn mismatch_detail(
    case: &Case,
    spec: &Spec,
    hay: &[u8],
    method: Method,
    got: &[M<u32>],
    exp: &[M<u32>],
) -> J {
    let d = first_diff(got, exp);
    J::obj()
        .set("spec", Case::spec_j(spec))
        .set("method", J::s(method.name()))
        .set("haystack", bytes_j(hay))
        .set("haystack_len", J::us(hay.len()))
        .set("first_difference_at_match_index", J::us(d))
        .set("got_(start,end,value)", matches_j(&got[d.saturating_sub(2)..], 12))
        .set("expected_(start,end,value)", matches_j(&exp[d.saturating_sub(2)..], 12))
        .set("got_len", J::us(got.len()))
        .set("expected_len", J::us(exp.len()))
        .set("case", case.to_json(64, 400))
}

/// Builds the automaton of a case with its own spec (or an overriding one).
/// Builds the automaton of a case. A construction that fails — error *or panic* — on a valid
/// collection is C10's business: the other properties quantify over successfully built automata,
/// so for them it is recorded (and makes the run inconclusive), never reported as their violation.
pub fn build_case(case: &Case, spec: Spec) -> Result<Pma<u32>, String> {
    build_guarded(spec, &case.patterns, &case.values)
}

pub fn build_guarded<V: Copy + TryFrom<usize>>(spec: Spec, patterns: &[Vec<u8>], values: &[V]) -> Result<Pma<V>, String> {
    let r = std::panic::catch_unwind(std::panic::AssertUnwindSafe(|| pma::build(spec, patterns, values)));
    match r {
        Ok(Ok(p)) => Ok(p),
        Ok(Err(e)) => Err(format!("rejected: {e}")),
        Err(e) => {
            let msg = e.downcast_ref::<String>().cloned().or_else(|| e.downcast_ref::<&str>().map(|s| (*s).to_string())).unwrap_or_default();
            Err(format!("PANICKED: {msg}"))
        }
    }
}

pub fn block_len<V: Copy>(p: &Pma<V>) -> usize {
    match p.mapper() {
        None => 256,
        Some((_, asz)) => (asz.next_power_of_two().max(2)) as usize,
    }
}

pub fn num_blocks<V: Copy>(p: &Pma<V>) -> usize {
    let (len, _) = p.lens();
    len / block_len(p)
}

/// Evidence statistics about the layout actually produced (multi-block, eviction happened).
pub fn layout_stats<V: Copy>(rep: &mut Report, p: &Pma<V>, spec: &Spec) -> (usize, bool) {
    let blocks = num_blocks(p);
    let nfb = spec.nfb.unwrap_or(16) as usize;
    let evicted = blocks > nfb;
    rep.count("automata", 1);
    if blocks >= 2 {
        rep.count("automata_multi_block", 1);
    }
    if evicted {
        rep.count("automata_with_block_eviction", 1);
    }
    rep.max("max_blocks", blocks as f64);
    rep.max("max_states", p.num_states() as f64);
    (blocks, evicted)
}

pub fn trie_for(case: &Case, spec: &Spec) -> SymTrie {
    build_trie(&case.patterns, &case.values, spec.variant == Variant::Charwise, spec.kind)
}

pub fn structure(ctx: &Ctx, p: &Pma<u32>, trie: Option<&SymTrie>) -> StructReport {
    check_structure(p, trie, &Opts { transition_cap: ctx.transition_cap(), outputs_head_only: false, can_probe: ctx.can_probe() }, |v| v)
}

/// Closure / ranking only, for automata over any value type.
pub fn structure_untyped<V: Copy>(ctx: &Ctx, p: &Pma<V>) -> StructReport {
    check_structure(p, None, &Opts { transition_cap: ctx.transition_cap(), outputs_head_only: false, can_probe: ctx.can_probe() }, |_| 0)
}

/// Same, but only the head of every output list is compared (C02 / C05 read nothing else).
pub fn structure_head_only(ctx: &Ctx, p: &Pma<u32>, trie: Option<&SymTrie>) -> StructReport {
    check_structure(p, trie, &Opts { transition_cap: ctx.transition_cap(), outputs_head_only: true, can_probe: ctx.can_probe() }, |v| v)
}

/// Records structure statistics into the evidence counters.
pub fn structure_stats(rep: &mut Report, r: &StructReport) {
    rep.count("states_validated", r.reachable as u64);
    rep.count("child_queries", r.child_queries);
    rep.count("dfa_transitions_validated", r.transitions_checked);
    rep.count("output_lists_validated", r.output_lists_checked);
    rep.max("max_fail_chain", r.max_fail_chain as f64);
    if r.dead_marker_links > 0 {
        rep.count("out_of_range_dead_links_probed_and_never_dereferenced", r.dead_marker_links);
    }
    rep.max("max_output_chain", r.max_output_chain as f64);
    if r.table_done {
        rep.count("automata_table_validated", 1);
        rep.count("product_pairs_validated", r.product_pairs as u64);
        if r.table_truncated {
            rep.count("automata_table_validation_truncated", 1);
        }
        if r.table_sampled {
            rep.count("automata_table_validated_sampled_symbols", 1);
        }
    }
}

pub fn struct_detail(case: &Case, spec: &Spec, msgs: &[String]) -> J {
    J::obj()
        .set("spec", Case::spec_j(spec))
        .set("findings", J::arr(msgs.iter().map(|m| J::s(m))))
        .set("case", case.to_json(64, 200))
}

/// Compares the real search results of `methods` on every haystack of the case with the models.
/// Returns (matches compared, per-haystack occurrences) and files violations under `monitor`.
pub fn compare_with_models(
    ctx: &mut Ctx,
    idx: u64,
    case: &Case,
    spec: &Spec,
    p: &Pma<u32>,
    methods: &[Method],
    monitor: &str,
) -> Vec<Vec<O>> {
    let pt = PatTrie::new(&case.patterns);
    let ns = p.num_states();
    let mut occs = Vec::new();
    for hay in &case.haystacks {
        let occ = pt.occurrences(hay);
        for &m in methods {
            let exp = to_m(&model(m, spec.kind, &occ), &case.values);
            let (got, _) = p.search(m, hay, exp.len() + 1, loose_budget(hay.len(), ns));
            ctx.rep.count("searches", 1);
            ctx.rep.count("matches_compared", exp.len() as u64);
            if ctx.replay {
                println!(
                    "  {} on {:?}: got {} matches, expected {}{}",
                    m.name(),
                    String::from_utf8_lossy(&hay[..hay.len().min(60)]),
                    got.len(),
                    exp.len(),
                    if got == exp { "" } else { "   <== MISMATCH" }
                );
            }
            if got != exp {
                let msg = format!(
                    "{} ({}, {}) returned a different match sequence than the reference model",
                    m.name(),
                    match spec.variant {
                        Variant::Bytewise => "byte-wise",
                        Variant::Charwise => "char-wise",
                    },
                    kind_name(spec.kind)
                );
                ctx.rep.violation(monitor, msg, idx, mismatch_detail(case, spec, hay, m, &got, &exp));
            }
        }
        occs.push(occ);
    }
    occs
}
