//! Entry point shared by the libFuzzer target and `dv fuzz-replay`: the input bytes choose a
//! property and drive every generator decision of one case; the same monitors as in the seeded
//! workers decide.

use crate::common::{Ctx, Mode, Tier};
use crate::props;
use crate::report::Report;
use std::panic::{catch_unwind, AssertUnwindSafe};

/// Properties exercised by the fuzz target (C14's thread workload and C16's CLI are left out).
pub const FUZZ_PROPS: [&str; 14] = [
    "C01", "C02", "C03", "C04", "C05", "C06", "C07", "C08", "C09", "C10", "C11", "C12", "C13", "C15",
];

pub struct FuzzOutcome {
    pub property: &'static str,
    pub violations: Vec<String>,
    pub panic: Option<String>,
}

pub fn run_bytes(data: &[u8], verbose: bool) -> Option<FuzzOutcome> {
    if data.len() < 4 {
        return None;
    }
    // DV_FUZZ_PROP pins the property (per-property thorough runs); otherwise the first byte selects
    let pinned = std::env::var("DV_FUZZ_PROP").ok().and_then(|p| FUZZ_PROPS.iter().copied().find(|q| *q == p));
    let prop = pinned.unwrap_or(FUZZ_PROPS[(data[0] as usize) % FUZZ_PROPS.len()]);
    crate::rng::set_fuzz_bytes(Some(data[1..].to_vec()));
    let mut ctx = Ctx {
        tier: Tier::Quick,
        mode: Mode::Asan, // reduced sizes
        seed: 0,
        rep: Report::new(prop),
        replay: verbose,
        flavour: "fuzz".into(),
    };
    ctx.rep.max_violations = 4;
    // index beyond every fixed corpus, so that the bytes drive the generators
    let r = catch_unwind(AssertUnwindSafe(|| props::run_case(prop, &mut ctx, 1_000_003)));
    daachorse::verif::set_step_budget(None);
    crate::rng::set_fuzz_bytes(None);
    let mut out = FuzzOutcome {
        property: prop,
        violations: ctx.rep.violations.iter().map(|v| format!("[{}] {}", v.monitor, v.message)).collect(),
        panic: None,
    };
    if let Err(e) = r {
        let msg = if let Some(s) = e.downcast_ref::<&str>() {
            (*s).to_string()
        } else if let Some(s) = e.downcast_ref::<String>() {
            s.clone()
        } else {
            "panic".to_string()
        };
        if !msg.starts_with("harness") {
            out.panic = Some(msg);
        }
    }
    Some(out)
}
