//! Minimal JSON value + writer (no parser needed: replays are regenerated from seeds).

use std::collections::BTreeMap;
use std::fmt::Write;

#[derive(Clone, Debug)]
pub enum J {
    Null,
    Bool(bool),
    Int(i128),
    Num(f64),
    Str(String),
    Arr(Vec<J>),
    Obj(Vec<(String, J)>),
}

impl J {
    pub fn obj() -> J {
        J::Obj(Vec::new())
    }
    pub fn set(mut self, k: &str, v: J) -> J {
        if let J::Obj(ref mut kv) = self {
            kv.push((k.to_string(), v));
        }
        self
    }
    pub fn s(x: &str) -> J {
        J::Str(x.to_string())
    }
    pub fn u(x: u64) -> J {
        J::Int(i128::from(x))
    }
    pub fn us(x: usize) -> J {
        J::Int(x as i128)
    }
    pub fn arr<I: IntoIterator<Item = J>>(it: I) -> J {
        J::Arr(it.into_iter().collect())
    }
    pub fn from_map(m: &BTreeMap<String, u64>) -> J {
        J::Obj(m.iter().map(|(k, v)| (k.clone(), J::u(*v))).collect())
    }

    pub fn write(&self, out: &mut String) {
        match self {
            J::Null => out.push_str("null"),
            J::Bool(b) => out.push_str(if *b { "true" } else { "false" }),
            J::Int(i) => {
                let _ = write!(out, "{i}");
            }
            J::Num(f) => {
                if f.is_finite() {
                    let _ = write!(out, "{f}");
                } else {
                    out.push_str("null");
                }
            }
            J::Str(s) => write_str(s, out),
            J::Arr(a) => {
                out.push('[');
                for (i, x) in a.iter().enumerate() {
                    if i > 0 {
                        out.push(',');
                    }
                    x.write(out);
                }
                out.push(']');
            }
            J::Obj(kv) => {
                out.push('{');
                for (i, (k, v)) in kv.iter().enumerate() {
                    if i > 0 {
                        out.push(',');
                    }
                    write_str(k, out);
                    out.push(':');
                    v.write(out);
                }
                out.push('}');
            }
        }
    }

    pub fn to_string(&self) -> String {
        let mut s = String::new();
        self.write(&mut s);
        s
    }
}

fn write_str(s: &str, out: &mut String) {
    out.push('"');
    for c in s.chars() {
        match c {
            '"' => out.push_str("\\\""),
            '\\' => out.push_str("\\\\"),
            '\n' => out.push_str("\\n"),
            '\r' => out.push_str("\\r"),
            '\t' => out.push_str("\\t"),
            c if (c as u32) < 0x20 || c == '\u{7f}' => {
                let _ = write!(out, "\\u{:04x}", c as u32);
            }
            c => out.push(c),
        }
    }
    out.push('"');
}

/// Byte string rendered for humans: valid UTF-8 without control characters is shown as is,
/// anything else as `b:` + Rust byte-escape.
pub fn bytes_j(b: &[u8]) -> J {
    match std::str::from_utf8(b) {
        Ok(s) if !s.chars().any(|c| c.is_control()) && !s.starts_with("b:") => J::s(s),
        _ => J::Str(format!("b:{}", b.escape_ascii())),
    }
}
