//! Structural monitors evaluated at the quiescent point right after build / deserialize, through
//! the hook accessors (the implementation's *own* child / transition functions).
//!
//!  * closure  (C07): every table index the scan loops can form from a reachable state is in range
//!  * ranking  (C13): fail chains strictly descend (Standard) / are acyclic (all kinds); output
//!                    chains are acyclic
//!  * shape    (C15): the strings reachable through the child function are exactly the prefixes of
//!                    the reportable patterns
//!  * table    (C01/C02/C05, Standard): transition function and output lists equal the textbook
//!                    Aho-Corasick automaton on every reachable state x every symbol
//!
//! The monitors make no assumption about where states live in the array or how BASE values are
//! chosen; they only use `child`, `next_state`, `fail`, `output_pos` and the output records.

use crate::pma::Pma;
use daachorse::MatchKind;
use std::collections::{HashMap, HashSet};

/// Textbook trie / Aho-Corasick automaton over symbols (u32: byte or code point).
pub struct SymTrie {
    pub children: Vec<HashMap<u32, u32>>,
    pub depth_bytes: Vec<usize>,
    /// pattern ending at the node: (value, byte length)
    pub own: Vec<Option<(u32, u32)>>,
    pub fail: Vec<u32>,
    pub bfs: Vec<u32>,
}

impl SymTrie {
    /// `skip[i]` = pattern i is not inserted (shadowed under leftmost-first).
    pub fn new(pats: &[Vec<u32>], values: &[u32], widths: impl Fn(u32) -> usize, skip: &[bool]) -> Self {
        let mut t = SymTrie {
            children: vec![HashMap::new()],
            depth_bytes: vec![0],
            own: vec![None],
            fail: vec![0],
            bfs: Vec::new(),
        };
        for (i, p) in pats.iter().enumerate() {
            if skip[i] {
                continue;
            }
            let mut n = 0u32;
            for &s in p {
                let next = t.children.len() as u32;
                let e = *t.children[n as usize].entry(s).or_insert(next);
                if e == next {
                    t.children.push(HashMap::new());
                    t.depth_bytes.push(t.depth_bytes[n as usize] + widths(s));
                    t.own.push(None);
                    t.fail.push(0);
                }
                n = e;
            }
            if t.own[n as usize].is_none() {
                t.own[n as usize] = Some((values[i], t.depth_bytes[n as usize] as u32));
            }
        }
        // BFS failure function (textbook)
        let mut q: Vec<u32> = Vec::new();
        let mut root_kids: Vec<(u32, u32)> = t.children[0].iter().map(|(&s, &c)| (s, c)).collect();
        root_kids.sort_unstable();
        for (_, c) in root_kids {
            t.fail[c as usize] = 0;
            q.push(c);
        }
        let mut qi = 0;
        while qi < q.len() {
            let u = q[qi];
            qi += 1;
            let mut kids: Vec<(u32, u32)> = t.children[u as usize].iter().map(|(&s, &c)| (s, c)).collect();
            kids.sort_unstable();
            for (s, c) in kids {
                let mut f = t.fail[u as usize];
                let nf = loop {
                    if let Some(&x) = t.children[f as usize].get(&s) {
                        break x;
                    }
                    if f == 0 {
                        break 0;
                    }
                    f = t.fail[f as usize];
                };
                t.fail[c as usize] = nf;
                q.push(c);
            }
        }
        t.bfs = q;
        t
    }

    pub fn len(&self) -> usize {
        self.children.len()
    }

    pub fn delta(&self, mut t: u32, sym: u32) -> u32 {
        loop {
            if let Some(&c) = self.children[t as usize].get(&sym) {
                return c;
            }
            if t == 0 {
                return 0;
            }
            t = self.fail[t as usize];
        }
    }

    /// Suffix patterns of the node's string, longest first: (value, byte length).
    pub fn out(&self, mut t: u32) -> Vec<(u32, u32)> {
        let mut v = Vec::new();
        loop {
            if let Some(o) = self.own[t as usize] {
                v.push(o);
            }
            if t == 0 {
                return v;
            }
            t = self.fail[t as usize];
        }
    }
}

#[derive(Default, Debug)]
pub struct StructReport {
    pub closure: Vec<String>,
    pub ranking: Vec<String>,
    pub shape: Vec<String>,
    pub table: Vec<String>,
    /// states reachable from the root through the implementation's child function (root included)
    pub reachable: usize,
    pub extra_via_fail: usize,
    pub child_queries: u64,
    pub transitions_checked: u64,
    pub output_lists_checked: u64,
    pub max_fail_chain: usize,
    pub max_output_chain: usize,
    pub table_len: usize,
    pub outputs_len: usize,
    pub table_sampled: bool,
    pub table_done: bool,
    pub table_truncated: bool,
    pub product_pairs: usize,
    pub dead_marker_links: u64,
}

const MAXV: usize = 6;

fn push(v: &mut Vec<String>, s: String) {
    if v.len() < MAXV {
        v.push(s);
    }
}

pub struct Opts {
    /// upper bound on |states| x |symbols| for the exhaustive transition comparison; above it the
    /// symbols per state are restricted to those with an edge on the state's fail chain plus a sample
    pub transition_cap: u64,
    /// compare only the head of each state's output list (what find_iter and the no-suffix
    /// iterator read) instead of the whole list (what the overlapping iterator walks)
    pub outputs_head_only: bool,
    /// this build aborts on an out-of-bounds unchecked access (debug assertions, ASan or Miri), so
    /// the monitor may let the real loop decide whether an out-of-range link is ever dereferenced
    pub can_probe: bool,
}

/// Runs closure + ranking on any automaton; shape if `trie` is given; table if additionally the
/// automaton is Standard.
pub fn check_structure<V: Copy>(pma: &Pma<V>, trie: Option<&SymTrie>, opts: &Opts, val: impl Fn(V) -> u32) -> StructReport {
    let mut r = StructReport::default();
    let (len, olen) = pma.lens();
    r.table_len = len;
    r.outputs_len = olen;
    let kind = pma.kind();
    let symbols = pma.symbols();
    let mut labels: Vec<u32> = symbols.iter().filter_map(|&(_, l)| l).collect();
    labels.sort_unstable();
    labels.dedup();
    let outputs = pma.outputs();

    if len == 0 {
        push(&mut r.closure, "state table is empty (root index 0 out of range)".into());
        return r;
    }

    // ---- reachable set through child edges, BFS, with depth in symbols --------------------
    let mut depth: HashMap<u32, usize> = HashMap::new();
    let mut order: Vec<u32> = vec![0];
    let mut has_miss: HashMap<u32, bool> = HashMap::new();
    depth.insert(0, 0);
    let mut qi = 0;
    while qi < order.len() {
        let s = order[qi];
        qi += 1;
        let d = depth[&s];
        let mut miss = false;
        for &l in &labels {
            r.child_queries += 1;
            match pma.child(s, l) {
                Err(o) => {
                    miss = true;
                    push(
                        &mut r.closure,
                        format!(
                            "state {} label {:#x}: scan loop would index states[{}] but len={}",
                            o.state, o.label, o.index, o.len
                        ),
                    );
                }
                Ok(Some(t)) => {
                    if !depth.contains_key(&t) {
                        depth.insert(t, d + 1);
                        order.push(t);
                    }
                }
                Ok(None) => miss = true,
            }
        }
        has_miss.insert(s, miss);
        if order.len() > len {
            push(&mut r.closure, "more reachable states than table slots".into());
            break;
        }
    }
    r.reachable = order.len();

    // ---- fail edges that can be taken, and their closure -----------------------------------
    let mut extra: Vec<u32> = Vec::new();
    let mut known: HashSet<u32> = order.iter().copied().collect();
    let mut work: Vec<u32> = order.clone();
    while let Some(s) = work.pop() {
        if s == 0 {
            continue;
        }
        let miss = match has_miss.get(&s) {
            Some(&m) => m,
            None => {
                // state only reachable through a fail edge: evaluate its children too
                let mut miss = false;
                for &l in &labels {
                    r.child_queries += 1;
                    match pma.child(s, l) {
                        Err(o) => {
                            miss = true;
                            push(
                                &mut r.closure,
                                format!(
                                    "state {} (via fail) label {:#x}: would index states[{}] but len={}",
                                    o.state, o.label, o.index, o.len
                                ),
                            );
                        }
                        Ok(Some(t)) => {
                            if known.insert(t) {
                                extra.push(t);
                                work.push(t);
                            }
                        }
                        Ok(None) => miss = true,
                    }
                }
                has_miss.insert(s, miss);
                miss
            }
        };
        if !miss {
            continue;
        }
        let st = pma.state(s).expect("validated index");
        let f = st.fail;
        if (f as usize) >= len {
            // An out-of-range fail link is harmless iff the scan loop recognises it as a "dead"
            // marker *before* using it as an index (the leftmost loops do that for their dead
            // link, whatever value represents it). Decide by observation, not by assuming the
            // marker's value: run the implementation's own loop once from s on a symbol that misses.
            // Everything it touches before the link is already validated; if it does dereference
            // the link, the build's sanitizer (std precondition check / ASan / Miri) aborts this
            // worker and the driver reports the case through the journal.
            if kind != MatchKind::Standard && opts.can_probe {
                let miss_sym = symbols.iter().find(|&&(_, l)| l.map_or(false, |l| matches!(pma.child(s, l), Ok(None)))).map(|x| x.0);
                if let Some(sym) = miss_sym {
                    let _ = unsafe { pma.next_state(s, sym) };
                    r.dead_marker_links += 1;
                    continue;
                }
            }
            push(&mut r.closure, format!("state {s}: fail link {f} out of range (len={len})"));
            continue;
        }
        if known.insert(f) {
            extra.push(f);
            work.push(f);
        }
    }
    r.extra_via_fail = extra.len();

    // ---- output positions --------------------------------------------------------------------
    for &s in order.iter().chain(extra.iter()) {
        let st = pma.state(s).expect("validated index");
        if st.output_pos == 0 {
            continue;
        }
        let mut pos = st.output_pos;
        let mut seen = 0usize;
        loop {
            if (pos as usize) > olen {
                push(
                    &mut r.closure,
                    format!("state {s}: output position {pos} out of range (outputs.len()={olen})"),
                );
                break;
            }
            seen += 1;
            if seen > olen {
                push(&mut r.ranking, format!("state {s}: output list is cyclic"));
                break;
            }
            if kind != MatchKind::Standard {
                break; // leftmost searches only read the head record
            }
            let parent = outputs[(pos - 1) as usize].parent;
            if parent == 0 {
                break;
            }
            pos = parent;
        }
        r.max_output_chain = r.max_output_chain.max(seen);
    }

    // ---- ranking of fail links -----------------------------------------------------------------
    for &s in &order {
        if s == 0 {
            continue;
        }
        // acyclicity: the chain s -> fail(s) -> ... must reach the root (or, for leftmost kinds, a
        // state outside the trie such as the dead state) within `reachable` steps
        let mut cur = s;
        let mut steps = 0usize;
        let mut ok = true;
        while cur != 0 {
            let st = match pma.state(cur) {
                Some(x) => x,
                None => break,
            };
            let f = st.fail;
            if kind != MatchKind::Standard && !depth.contains_key(&f) {
                break; // left the trie (dead state): the leftmost loop stops here
            }
            if kind == MatchKind::Standard {
                match (depth.get(&f), depth.get(&cur)) {
                    (Some(&df), Some(&dc)) => {
                        if df >= dc {
                            push(
                                &mut r.ranking,
                                format!("state {cur} (depth {dc}): fail link {f} has depth {df} (not strictly shallower)"),
                            );
                            ok = false;
                        }
                    }
                    (None, _) => {
                        push(&mut r.ranking, format!("state {cur}: fail link {f} is not a trie state"));
                        ok = false;
                    }
                    _ => {}
                }
            }
            if !ok {
                break;
            }
            cur = f;
            steps += 1;
            if steps > order.len() + 1 {
                push(&mut r.ranking, format!("state {s}: fail chain does not reach the root (cycle)"));
                break;
            }
        }
        r.max_fail_chain = r.max_fail_chain.max(steps);
    }

    // ---- shape / table against the textbook trie --------------------------------------------
    let trie = match trie {
        Some(t) => t,
        None => return r,
    };
    let sym_label: HashMap<u32, Option<u32>> = symbols.iter().copied().collect();
    let mut map: Vec<u32> = vec![u32::MAX; trie.len()];
    let mut rev: HashMap<u32, u32> = HashMap::new();
    map[0] = 0;
    rev.insert(0, 0);
    let mut tq: Vec<u32> = vec![0];
    let mut qi = 0;
    let mut shape_ok = true;
    while qi < tq.len() {
        let t = tq[qi];
        qi += 1;
        let s = map[t as usize];
        // expected edges must exist
        let mut kids: Vec<(u32, u32)> = trie.children[t as usize].iter().map(|(&a, &b)| (a, b)).collect();
        kids.sort_unstable();
        let mut expected_labels: HashSet<u32> = HashSet::new();
        for (sym, tc) in kids {
            let label = match sym_label.get(&sym) {
                Some(&Some(l)) => l,
                _ => {
                    push(&mut r.shape, format!("pattern symbol {sym:#x} has no label in the automaton"));
                    shape_ok = false;
                    continue;
                }
            };
            expected_labels.insert(label);
            match pma.child(s, label) {
                Ok(Some(sc)) => {
                    if let Some(&other) = rev.get(&sc) {
                        push(
                            &mut r.shape,
                            format!("array slot {sc} represents two different strings (trie nodes {other} and {tc})"),
                        );
                        shape_ok = false;
                    } else {
                        rev.insert(sc, tc);
                        map[tc as usize] = sc;
                        tq.push(tc);
                    }
                }
                Ok(None) => {
                    push(&mut r.shape, format!("state {s} (trie node {t}): missing edge on symbol {sym:#x}"));
                    shape_ok = false;
                }
                Err(_) => {
                    shape_ok = false;
                }
            }
        }
        // no unexpected edges (phantom transitions)
        for &l in &labels {
            if expected_labels.contains(&l) {
                continue;
            }
            if let Ok(Some(sc)) = pma.child(s, l) {
                push(
                    &mut r.shape,
                    format!("state {s} (trie node {t}): phantom edge on label {l:#x} to slot {sc}"),
                );
                shape_ok = false;
            }
        }
    }
    if r.reachable != trie.len() && r.shape.is_empty() {
        push(
            &mut r.shape,
            format!("{} states reachable through child edges, {} distinct prefixes expected", r.reachable, trie.len()),
        );
        shape_ok = false;
    }

    let _ = shape_ok;
    if kind != MatchKind::Standard || !r.closure.is_empty() || !r.ranking.is_empty() {
        return r;
    }

    // ---- behavioural equivalence with the textbook automaton (Standard) ----------------------
    // Product walk: start in (root, root); for every symbol step the implementation's own
    // transition function and the textbook delta; every pair reached must agree on the output list
    // (whole list, or its head only). This is a bisimulation up to outputs: it demands exactly what
    // the searches can observe and nothing about where states live, how many slots represent one
    // string, or whether harmless extra states exist. A disagreement comes with a witness haystack.
    let nsym = symbols.len() as u64;
    let full = (trie.len() as u64) * nsym <= opts.transition_cap;
    r.table_sampled = !full;
    let mut pairs: Vec<(u32, u32, u32, u32)> = vec![(0, 0, u32::MAX, 0)]; // (slot, trie node, parent pair, symbol)
    let mut seen: HashSet<(u32, u32)> = HashSet::new();
    seen.insert((0, 0));
    let pair_cap = 4 * trie.len() + 1024;
    let witness = |pairs: &Vec<(u32, u32, u32, u32)>, mut k: usize, width: &dyn Fn(u32) -> Vec<u8>| -> String {
        let mut syms: Vec<u32> = Vec::new();
        while pairs[k].2 != u32::MAX {
            syms.push(pairs[k].3);
            k = pairs[k].2 as usize;
        }
        syms.reverse();
        let mut bytes: Vec<u8> = Vec::new();
        for sy in syms {
            bytes.extend(width(sy));
        }
        format!("{}", bytes.escape_ascii())
    };
    let charwise = pma.mapper().is_some();
    let enc = move |sy: u32| -> Vec<u8> {
        if charwise {
            let mut b = [0u8; 4];
            char::from_u32(sy).map_or(vec![b'?'], |c| c.encode_utf8(&mut b).as_bytes().to_vec())
        } else {
            vec![sy as u8]
        }
    };
    let mut k = 0usize;
    while k < pairs.len() {
        let (slot, t, _, _) = pairs[k];
        // outputs of this pair
        let exp = trie.out(t);
        let st = pma.state(slot).expect("validated");
        let mut got: Vec<(u32, u32)> = Vec::new();
        let mut pos = st.output_pos;
        while pos != 0 && got.len() <= olen {
            let o = outputs[(pos - 1) as usize];
            got.push((val(o.value), o.length));
            pos = o.parent;
        }
        r.output_lists_checked += 1;
        let differs = if opts.outputs_head_only { got.first() != exp.first() } else { got != exp };
        if differs {
            push(
                &mut r.table,
                format!(
                    "after reading the haystack b\"{}\" the automaton is in slot {slot} whose output list (value,len) is {:?}; the textbook Aho-Corasick automaton reports {:?} there{}",
                    witness(&pairs, k, &enc),
                    &got[..got.len().min(8)],
                    &exp[..exp.len().min(8)],
                    if opts.outputs_head_only { " (only the head is compared)" } else { "" }
                ),
            );
            if r.table.len() >= MAXV {
                break;
            }
            k += 1;
            continue; // do not explore below a pair that already disagrees
        }
        let syms: Vec<u32> = if full {
            symbols.iter().map(|&(sy, _)| sy).collect()
        } else {
            let mut v: Vec<u32> = Vec::new();
            let mut u = t;
            loop {
                v.extend(trie.children[u as usize].keys().copied());
                if u == 0 {
                    break;
                }
                u = trie.fail[u as usize];
            }
            v.extend(symbols.iter().filter(|x| x.1.is_none()).map(|x| x.0));
            let stride = (symbols.len() / 16).max(1);
            v.extend(symbols.iter().skip((t as usize) % stride).step_by(stride).map(|x| x.0));
            v.sort_unstable();
            v.dedup();
            v
        };
        for sym in syms {
            // closure and ranking have passed for this automaton: every index the loop can form is
            // in range and every fail chain ends
            let s2 = unsafe { pma.next_state(slot, sym) };
            let t2 = trie.delta(t, sym);
            r.transitions_checked += 1;
            if seen.len() < pair_cap && seen.insert((s2, t2)) {
                pairs.push((s2, t2, k as u32, sym));
            }
        }
        k += 1;
    }
    if seen.len() >= pair_cap {
        r.table_truncated = true;
    }
    r.product_pairs = pairs.len();
    r.table_done = true;
    r
}

#[derive(Default, Debug)]
pub struct PairReport {
    pub differences: Vec<String>,
    pub pairs: usize,
    pub transitions: u64,
    pub truncated: bool,
    pub sampled: bool,
}

/// Behavioural equivalence of two real automata built from the same patterns (e.g. with different
/// builder settings): product walk from (root, root) over every symbol with each automaton's own
/// transition function; every pair reached must agree on what a search can observe there — the
/// whole output list (Standard), or whether the state is the root plus the head of the output list
/// (leftmost kinds: that is all the leftmost iterator reads). Both automata must have passed the
/// closure and ranking monitors. Slot 0 is taken to be the root (searches start there).
pub fn check_pair_equivalence(a: &Pma<u32>, b: &Pma<u32>, transition_cap: u64) -> PairReport {
    let mut r = PairReport::default();
    let kind = a.kind();
    if b.kind() != kind {
        r.differences.push("the two automata have different match kinds".into());
        return r;
    }
    let mut symbols: Vec<u32> = a.symbols().iter().map(|x| x.0).collect();
    symbols.extend(b.symbols().iter().map(|x| x.0));
    symbols.sort_unstable();
    symbols.dedup();
    let (oa, ob) = (a.outputs(), b.outputs());
    let list = |p: &Pma<u32>, outs: &Vec<daachorse::verif::RawOutput<u32>>, slot: u32| -> Vec<(u32, u32)> {
        let mut v = Vec::new();
        let mut pos = p.state(slot).map_or(0, |s| s.output_pos);
        while pos != 0 && v.len() <= outs.len() {
            let o = outs[(pos - 1) as usize];
            v.push((o.value, o.length));
            if kind != MatchKind::Standard {
                break;
            }
            pos = o.parent;
        }
        v
    };
    let charwise = a.mapper().is_some();
    let enc = move |sy: u32| -> Vec<u8> {
        if charwise {
            let mut buf = [0u8; 4];
            char::from_u32(sy).map_or(vec![b'?'], |c| c.encode_utf8(&mut buf).as_bytes().to_vec())
        } else {
            vec![sy as u8]
        }
    };
    let est_states = a.num_states().max(b.num_states()) as u64 + 2;
    let full = est_states * symbols.len() as u64 <= transition_cap;
    r.sampled = !full;
    let pair_cap = 4 * est_states as usize + 1024;
    let mut pairs: Vec<(u32, u32, u32, u32)> = vec![(0, 0, u32::MAX, 0)];
    let mut seen: HashSet<(u32, u32)> = HashSet::new();
    seen.insert((0, 0));
    let mut k = 0usize;
    while k < pairs.len() {
        let (sa, sb, _, _) = pairs[k];
        let (la, lb) = (list(a, &oa, sa), list(b, &ob, sb));
        let root_differs = kind != MatchKind::Standard && ((sa == 0) != (sb == 0));
        if la != lb || root_differs {
            let mut syms: Vec<u32> = Vec::new();
            let mut j = k;
            while pairs[j].2 != u32::MAX {
                syms.push(pairs[j].3);
                j = pairs[j].2 as usize;
            }
            syms.reverse();
            let mut w: Vec<u8> = Vec::new();
            for sy in syms {
                w.extend(enc(sy));
            }
            if r.differences.len() < MAXV {
                r.differences.push(format!(
                    "after reading the haystack b\"{}\" the first automaton is in slot {sa} (root: {}) with outputs (value,len) {:?}, the second in slot {sb} (root: {}) with outputs {:?}",
                    w.escape_ascii(),
                    sa == 0,
                    &la[..la.len().min(6)],
                    sb == 0,
                    &lb[..lb.len().min(6)]
                ));
            }
            if r.differences.len() >= MAXV {
                break;
            }
            k += 1;
            continue;
        }
        let step = if full { 1 } else { (symbols.len() / 24).max(1) };
        for (i, &sym) in symbols.iter().enumerate() {
            if !full && (i + sa as usize) % step != 0 {
                continue;
            }
            let na = unsafe { a.next_state(sa, sym) };
            let nb = unsafe { b.next_state(sb, sym) };
            r.transitions += 1;
            if seen.len() < pair_cap && seen.insert((na, nb)) {
                pairs.push((na, nb, k as u32, sym));
            }
        }
        k += 1;
    }
    r.truncated = seen.len() >= pair_cap;
    r.pairs = pairs.len();
    r
}

/// C08, for all haystacks of one pair of automata: product walk of a char-wise and a byte-wise
/// automaton built from the same UTF-8 patterns. One step = one character: the char-wise automaton
/// takes its own transition on the code point, the byte-wise one on each UTF-8 byte in turn. At
/// every character boundary reached, both must expose the same observation (Standard: the whole
/// output list; leftmost kinds: being in the root or not, and the head of the output list).
/// Both automata must have passed the closure and ranking monitors.
pub fn check_cross_variant_equivalence(cw: &Pma<u32>, bw: &Pma<u32>, transition_cap: u64) -> PairReport {
    let mut r = PairReport::default();
    let kind = cw.kind();
    if bw.kind() != kind {
        r.differences.push("the two automata have different match kinds".into());
        return r;
    }
    let symbols: Vec<u32> = cw.symbols().iter().map(|x| x.0).collect();
    let (oc, ob) = (cw.outputs(), bw.outputs());
    let list = |p: &Pma<u32>, outs: &Vec<daachorse::verif::RawOutput<u32>>, slot: u32| -> Vec<(u32, u32)> {
        let mut v = Vec::new();
        let mut pos = p.state(slot).map_or(0, |s| s.output_pos);
        while pos != 0 && v.len() <= outs.len() {
            let o = outs[(pos - 1) as usize];
            v.push((o.value, o.length));
            if kind != MatchKind::Standard {
                break;
            }
            pos = o.parent;
        }
        v
    };
    let enc = |sy: u32| -> Vec<u8> {
        let mut buf = [0u8; 4];
        char::from_u32(sy).map_or(vec![b'?'], |c| c.encode_utf8(&mut buf).as_bytes().to_vec())
    };
    let est_states = cw.num_states() as u64 + 2;
    let full = est_states * symbols.len() as u64 <= transition_cap;
    r.sampled = !full;
    let pair_cap = 4 * est_states as usize + 1024;
    let mut pairs: Vec<(u32, u32, u32, u32)> = vec![(0, 0, u32::MAX, 0)];
    let mut seen: HashSet<(u32, u32)> = HashSet::new();
    seen.insert((0, 0));
    let mut k = 0usize;
    while k < pairs.len() {
        let (sc, sb, _, _) = pairs[k];
        let (lc, lb) = (list(cw, &oc, sc), list(bw, &ob, sb));
        let root_differs = kind != MatchKind::Standard && ((sc == 0) != (sb == 0));
        if lc != lb || root_differs {
            let mut syms: Vec<u32> = Vec::new();
            let mut j = k;
            while pairs[j].2 != u32::MAX {
                syms.push(pairs[j].3);
                j = pairs[j].2 as usize;
            }
            syms.reverse();
            let w: String = syms.iter().filter_map(|&c| char::from_u32(c)).collect();
            if r.differences.len() < MAXV {
                r.differences.push(format!(
                    "after reading the haystack {:?} the char-wise automaton is in slot {sc} (root: {}) with outputs (value,len) {:?}, the byte-wise one in slot {sb} (root: {}) with outputs {:?}",
                    w,
                    sc == 0,
                    &lc[..lc.len().min(6)],
                    sb == 0,
                    &lb[..lb.len().min(6)]
                ));
            }
            if r.differences.len() >= MAXV {
                break;
            }
            k += 1;
            continue;
        }
        let step = if full { 1 } else { (symbols.len() / 24).max(1) };
        for (i, &sym) in symbols.iter().enumerate() {
            if !full && (i + sc as usize) % step != 0 {
                continue;
            }
            let nc = unsafe { cw.next_state(sc, sym) };
            let mut nb = sb;
            for byte in enc(sym) {
                nb = unsafe { bw.next_state(nb, u32::from(byte)) };
            }
            r.transitions += 1;
            if seen.len() < pair_cap && seen.insert((nc, nb)) {
                pairs.push((nc, nb, k as u32, sym));
            }
        }
        k += 1;
    }
    r.truncated = seen.len() >= pair_cap;
    r.pairs = pairs.len();
    r
}

/// Symbol sequences of the patterns of a case.
pub fn pattern_symbols(patterns: &[Vec<u8>], charwise: bool) -> Vec<Vec<u32>> {
    patterns
        .iter()
        .map(|p| {
            if charwise {
                std::str::from_utf8(p).expect("harness: utf8").chars().map(|c| c as u32).collect()
            } else {
                p.iter().map(|&b| u32::from(b)).collect()
            }
        })
        .collect()
}

pub fn build_trie(patterns: &[Vec<u8>], values: &[u32], charwise: bool, kind: MatchKind) -> SymTrie {
    let syms = pattern_symbols(patterns, charwise);
    let skip = if kind == MatchKind::LeftmostFirst {
        crate::oracle::shadowed(patterns)
    } else {
        vec![false; patterns.len()]
    };
    SymTrie::new(
        &syms,
        values,
        |s| if charwise { char::from_u32(s).map_or(1, char::len_utf8) } else { 1 },
        &skip,
    )
}
