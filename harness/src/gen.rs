//! Workload generators (W1..W9 of DESIGN.md section 4). Everything derives from the case RNG.
//!
//! A *symbol* is a byte string: one byte (byte-wise binary workloads) or one UTF-8 encoded
//! character. Patterns and haystacks are concatenations of symbols, so one generator serves both
//! automaton variants.

use crate::case::Case;
use crate::pma::{Entry, Spec, Variant, KINDS};
use crate::rng::Rng;
use daachorse::MatchKind;
use std::collections::HashSet;

pub type Sym = Vec<u8>;

fn ch(c: char) -> Sym {
    let mut b = [0u8; 4];
    c.encode_utf8(&mut b).as_bytes().to_vec()
}

/// Bytes that vacant double-array slots default to (0x00 / 0x01), block-boundary-ish values.
pub const BIN_SPECIAL: [u8; 8] = [0x00, 0x01, 0xFF, 0x7F, 0x80, 0x02, 0xFE, 0xC0];

/// Characters on UTF-8 width boundaries and common multi-byte ones.
pub const CHARS_LOW: [char; 12] =
    ['a', 'b', 'c', '\u{0}', '\u{1}', '\u{7f}', '\u{80}', 'é', 'ß', '\u{7ff}', 'я', 'ж'];
pub const CHARS_HIGH: [char; 14] = [
    '\u{800}', 'あ', '世', '界', '\u{d7ff}', '\u{e000}', '\u{ffff}', '\u{10000}', '𝄞', '😀',
    '\u{10ffff}', 'Ａ', 'Ｂ', '全',
];

#[derive(Clone, Copy, Debug, PartialEq, Eq)]
pub enum Alpha {
    /// arbitrary bytes incl. 0x00/0x01/0xFF (byte-wise only)
    Binary,
    /// ASCII letters
    Ascii,
    /// UTF-8 characters with code points < U+0800 (cheap mapper table; Miri-friendly)
    Utf8Low,
    /// UTF-8 characters of every width incl. boundary code points
    Utf8Full,
}

/// Draws `n` distinct symbols.
pub fn alphabet(rng: &mut Rng, kind: Alpha, n: usize) -> Vec<Sym> {
    let mut out: Vec<Sym> = Vec::new();
    let mut seen: HashSet<Sym> = HashSet::new();
    let mut guard = 0;
    while out.len() < n && guard < 100_000 {
        guard += 1;
        let s: Sym = match kind {
            Alpha::Binary => {
                if rng.chance(1, 2) {
                    vec![*rng.pick(&BIN_SPECIAL)]
                } else {
                    vec![rng.below(256) as u8]
                }
            }
            Alpha::Ascii => vec![b'a' + rng.below(26) as u8],
            Alpha::Utf8Low => {
                if rng.chance(1, 2) {
                    ch(*rng.pick(&CHARS_LOW))
                } else {
                    ch(char::from_u32(rng.below(0x800) as u32).unwrap())
                }
            }
            Alpha::Utf8Full => match rng.below(4) {
                0 => ch(*rng.pick(&CHARS_LOW)),
                1 => ch(*rng.pick(&CHARS_HIGH)),
                2 => ch(char::from_u32(rng.below(0x800) as u32).unwrap()),
                _ => loop {
                    let cp = match rng.below(3) {
                        0 => 0x800 + rng.below(0x10000 - 0x800) as u32,
                        1 => 0x10000 + rng.below(0x1000) as u32,
                        _ => 0x3040 + rng.below(0x60) as u32, // hiragana block: dense neighbours
                    };
                    if let Some(c) = char::from_u32(cp) {
                        break ch(c);
                    }
                },
            },
        };
        if seen.insert(s.clone()) {
            out.push(s);
        }
    }
    out
}

/// `n` distinct consecutive-ish characters starting at `base` (large char alphabets, W3).
pub fn char_block(base: u32, n: usize) -> Vec<Sym> {
    let mut v = Vec::new();
    let mut cp = base;
    while v.len() < n {
        if let Some(c) = char::from_u32(cp) {
            v.push(ch(c));
        }
        cp += 1;
    }
    v
}

fn concat(syms: &[Sym]) -> Vec<u8> {
    syms.iter().flat_map(|s| s.iter().copied()).collect()
}

/// Generates up to `n` distinct non-empty patterns (as symbol sequences), about a third of them
/// derived from earlier ones (extension, prefix, suffix, infix, prepend) so that prefix/suffix
/// relations and nested suffix chains are dense.
pub fn patterns(rng: &mut Rng, alpha: &[Sym], n: usize, max_len: usize, derive_pct: u64) -> Vec<Vec<Sym>> {
    let mut out: Vec<Vec<Sym>> = Vec::new();
    let mut seen: HashSet<Vec<u8>> = HashSet::new();
    let mut attempts = 0;
    while out.len() < n && attempts < n * 20 + 50 {
        attempts += 1;
        let p: Vec<Sym> = if !out.is_empty() && rng.chance(derive_pct, 100) {
            let base = rng.pick(&out).clone();
            match rng.below(6) {
                0 => {
                    // extend
                    let mut q = base;
                    for _ in 0..rng.range(1, 3) {
                        q.push(rng.pick(alpha).clone());
                    }
                    q
                }
                1 => base[..rng.range(1, base.len())].to_vec(),
                2 => base[rng.usize_below(base.len())..].to_vec(),
                3 => {
                    let a = rng.usize_below(base.len());
                    let b = rng.range(a + 1, base.len());
                    base[a..b].to_vec()
                }
                4 => {
                    // prepend (makes base a suffix of the new pattern)
                    let mut q: Vec<Sym> = (0..rng.range(1, 2)).map(|_| rng.pick(alpha).clone()).collect();
                    q.extend(base);
                    q
                }
                _ => {
                    // suffix of one + prefix of another (overlap bait)
                    let other = rng.pick(&out).clone();
                    let mut q = base[rng.usize_below(base.len())..].to_vec();
                    q.extend_from_slice(&other[..rng.range(1, other.len())]);
                    q
                }
            }
        } else {
            (0..rng.range(1, max_len)).map(|_| rng.pick(alpha).clone()).collect()
        };
        if p.is_empty() || p.len() > max_len + 4 {
            continue;
        }
        if seen.insert(concat(&p)) {
            out.push(p);
        }
    }
    out
}

/// Haystack stitched from whole patterns, pattern prefixes/suffixes, alphabet noise and foreign
/// symbols, so that deep states, fail chains and restarts right after a match are hit.
pub fn haystack(rng: &mut Rng, pats: &[Vec<Sym>], alpha: &[Sym], foreign: &[Sym], pieces: usize) -> Vec<u8> {
    let mut h: Vec<u8> = Vec::new();
    for _ in 0..pieces {
        match rng.below(20) {
            0..=7 => {
                let p: &Vec<Sym> = rng.pick(pats);
                h.extend(concat(p));
            }
            8..=10 => {
                let p = rng.pick(pats);
                h.extend(concat(&p[..rng.range(1, p.len())]));
            }
            11..=13 => {
                let p = rng.pick(pats);
                h.extend(concat(&p[rng.usize_below(p.len())..]));
            }
            14..=17 => {
                for _ in 0..rng.range(1, 3) {
                    h.extend(rng.pick(alpha).iter());
                }
            }
            _ => {
                if foreign.is_empty() {
                    h.extend(rng.pick(alpha).iter());
                } else {
                    h.extend(rng.pick(foreign).iter());
                }
            }
        }
    }
    h
}

pub fn values(rng: &mut Rng, n: usize) -> Vec<u32> {
    match rng.below(5) {
        0 => (0..n as u32).collect(),
        1 => vec![*rng.pick(&[0u32, 1, 7, u32::MAX]); n],
        2 => (0..n).map(|_| rng.below(3) as u32).collect(),
        3 => (0..n).map(|_| *rng.pick(&[0u32, u32::MAX, u32::MAX - 1, 1, 0x8000_0000])).collect(),
        _ => (0..n).map(|_| rng.next_u64() as u32).collect(),
    }
}

pub const NFB_CHOICES: [u32; 12] = [1, 2, 3, 4, 5, 8, 15, 16, 17, 32, 33, 64];

pub fn nfb(rng: &mut Rng) -> Option<u32> {
    match rng.below(10) {
        0..=2 => None,
        3..=5 => Some(1 + rng.below(4) as u32),
        6..=8 => Some(*rng.pick(&NFB_CHOICES)),
        _ => Some(1 + rng.below(64) as u32),
    }
}

#[derive(Clone, Copy, Debug)]
pub struct Shape {
    pub variant: Variant,
    pub kind: MatchKind,
    pub alpha: Alpha,
    pub alpha_size: (usize, usize),
    pub n_patterns: (usize, usize),
    pub max_len: usize,
    pub derive_pct: u64,
    pub n_haystacks: usize,
    pub hay_pieces: (usize, usize),
    pub workload: &'static str,
}

/// Foreign symbols for the haystack: symbols that occur in no pattern. For UTF-8 alphabets they
/// include code points above every pattern character (mapper out-of-table path) and inside the
/// table (INVALID_CODE path), of every UTF-8 width.
pub fn foreign(rng: &mut Rng, kind: Alpha, used: &[Sym]) -> Vec<Sym> {
    let used: HashSet<&Sym> = used.iter().collect();
    let cands: Vec<Sym> = match kind {
        Alpha::Binary => {
            let mut v: Vec<Sym> = BIN_SPECIAL.iter().map(|&b| vec![b]).collect();
            for _ in 0..4 {
                v.push(vec![rng.below(256) as u8]);
            }
            v
        }
        Alpha::Ascii => (b'a'..=b'z').chain([b' ', b'0', 0u8, 1u8].into_iter()).map(|b| vec![b]).collect(),
        Alpha::Utf8Low | Alpha::Utf8Full => {
            let mut v: Vec<Sym> = CHARS_LOW.iter().chain(CHARS_HIGH.iter()).map(|&c| ch(c)).collect();
            v.push(ch(' '));
            v.push(ch('\u{10fffe}'));
            v.push(ch('\u{2}'));
            v
        }
    };
    let mut v: Vec<Sym> = cands.into_iter().filter(|s| !used.contains(s)).collect();
    rng.shuffle(&mut v);
    v.truncate(6);
    v
}

/// Generic case generator driven by a `Shape`.
pub fn case_from_shape(rng: &mut Rng, sh: &Shape) -> Case {
    let asz = rng.range(sh.alpha_size.0, sh.alpha_size.1);
    let alpha = alphabet(rng, sh.alpha, asz);
    let n = rng.range(sh.n_patterns.0, sh.n_patterns.1);
    let pats = patterns(rng, &alpha, n, sh.max_len, sh.derive_pct);
    let frn = foreign(rng, sh.alpha, &alpha);
    let mut hays = Vec::new();
    for _ in 0..sh.n_haystacks {
        let pieces = rng.range(sh.hay_pieces.0, sh.hay_pieces.1);
        hays.push(haystack(rng, &pats, &alpha, &frn, pieces));
    }
    // a few degenerate haystacks
    if rng.chance(1, 4) {
        hays.push(Vec::new());
    }
    if rng.chance(1, 4) {
        let p: &Vec<Sym> = rng.pick(&pats);
        hays.push(concat(p));
    }
    let entry = if rng.chance(1, 2) { Entry::New } else { Entry::WithValues };
    let patterns_b: Vec<Vec<u8>> = pats.iter().map(|p| concat(p)).collect();
    let vals = match entry {
        Entry::New => (0..patterns_b.len() as u32).collect(),
        Entry::WithValues => values(rng, patterns_b.len()),
    };
    Case {
        spec: Spec { variant: sh.variant, kind: sh.kind, nfb: nfb(rng), entry },
        patterns: patterns_b,
        values: vals,
        haystacks: hays,
        utf8: sh.alpha != Alpha::Binary,
        workload: sh.workload,
    }
}

/// W10: a few very long patterns (up to > 65 536 symbols: deep states, large `length` fields,
/// byte lengths beyond u16) next to short ones that are their prefixes / infixes / suffixes.
/// Long patterns are random over >= 3 symbols so that the brute-force oracle stays near-linear.
pub fn long_case(rng: &mut Rng, variant: Variant, kind: MatchKind) -> Case {
    let akind = match variant {
        Variant::Bytewise => *rng.pick(&[Alpha::Binary, Alpha::Ascii]),
        Variant::Charwise => *rng.pick(&[Alpha::Ascii, Alpha::Utf8Low, Alpha::Utf8Full]),
    };
    let asz = rng.range(3, 6);
    let alpha = alphabet(rng, akind, asz);
    let mut pats: Vec<Vec<Sym>> = Vec::new();
    if rng.chance(1, 3) {
        // periodic chains ("aaaa…", "abab…"): long runs of single-child states. Kept <= ~1500
        // symbols because the brute-force oracle is quadratic on periodic text.
        let unit: Vec<Sym> = (0..rng.range(1, 3)).map(|_| rng.pick(&alpha).clone()).collect();
        let len = match rng.below(3) {
            0 => 253 + 256 * rng.range(1, 4),
            1 => 253 + 256 * rng.range(1, 4) + rng.range(0, 2) - 1,
            _ => rng.range(200, 1500),
        };
        let long: Vec<Sym> = (0..len).map(|i| unit[i % unit.len()].clone()).collect();
        let mut pats = vec![long.clone()];
        if rng.chance(1, 2) {
            pats.push(long[..rng.range(1, len - 1)].to_vec());
        }
        if rng.chance(1, 2) {
            let mut q = long[..rng.range(1, len - 1)].to_vec();
            q.push(rng.pick(&alpha).clone());
            if concat(&q) != concat(&long[..q.len()]) {
                pats.push(q);
            }
        }
        let mut seen = HashSet::new();
        pats.retain(|p| seen.insert(concat(p)));
        rng.shuffle(&mut pats);
        let mut h = concat(&long);
        h.extend(concat(&long[..len / 2]));
        let frn = foreign(rng, akind, &alpha);
        if let Some(f) = frn.first() {
            h.extend_from_slice(f);
        }
        h.extend(concat(&long[..len - 1]));
        let entry = if rng.chance(1, 2) { Entry::New } else { Entry::WithValues };
        let patterns_b: Vec<Vec<u8>> = pats.iter().map(|p| concat(p)).collect();
        let vals = match entry {
            Entry::New => (0..patterns_b.len() as u32).collect(),
            Entry::WithValues => values(rng, patterns_b.len()),
        };
        return Case {
            spec: Spec { variant, kind, nfb: nfb(rng), entry },
            patterns: patterns_b,
            values: vals,
            haystacks: vec![h],
            utf8: akind != Alpha::Binary,
            workload: "W10-long-periodic-chain",
        };
    }
    let n_long = rng.range(1, 2);
    for _ in 0..n_long {
        let len = *rng.pick(&[200usize, 255, 256, 257, 300, 500, 1000, 1000, 4096, 5000, 21_846, 32_768, 65_535, 65_536, 70_000]);
        let len = if rng.is_bytes_mode() { len.min(1000) } else { len };
        pats.push((0..len).map(|_| rng.pick(&alpha).clone()).collect());
    }
    let long0 = pats[0].clone();
    for _ in 0..rng.range(1, 5) {
        let a = rng.usize_below(long0.len());
        let b = (a + rng.range(1, 6)).min(long0.len());
        pats.push(long0[a..b].to_vec());
    }
    pats.push(long0[..rng.range(1, long0.len() - 1)].to_vec()); // proper prefix
    pats.push(long0[rng.range(1, long0.len() - 1)..].to_vec()); // proper suffix
    let mut seen = HashSet::new();
    pats.retain(|p| !p.is_empty() && seen.insert(concat(p)));
    rng.shuffle(&mut pats);
    let frn = foreign(rng, akind, &alpha);
    let noise = |rng: &mut Rng| -> Vec<u8> {
        let mut v = Vec::new();
        for _ in 0..rng.range(0, 6) {
            v.extend(if frn.is_empty() || rng.chance(1, 2) { rng.pick(&alpha).clone() } else { rng.pick(&frn).clone() });
        }
        v
    };
    let mut h = noise(rng);
    h.extend(concat(&long0));
    h.extend(noise(rng));
    h.extend(concat(&long0[..long0.len() - 1]));
    h.extend(noise(rng));
    h.extend(concat(&long0[1..]));
    let mut h2 = concat(&long0);
    h2.extend(concat(&long0));
    let entry = if rng.chance(1, 2) { Entry::New } else { Entry::WithValues };
    let patterns_b: Vec<Vec<u8>> = pats.iter().map(|p| concat(p)).collect();
    let vals = match entry {
        Entry::New => (0..patterns_b.len() as u32).collect(),
        Entry::WithValues => values(rng, patterns_b.len()),
    };
    Case {
        spec: Spec { variant, kind, nfb: nfb(rng), entry },
        patterns: patterns_b,
        values: vals,
        haystacks: vec![h, h2],
        utf8: akind != Alpha::Binary,
        workload: "W10-long-patterns",
    }
}

/// W1/W2/W5 mix of *small* cases for a given variant and kind.
pub fn small_case(rng: &mut Rng, variant: Variant, kind: MatchKind, miri: bool) -> Case {
    if !miri && rng.below(400) == 0 {
        return long_case(rng, variant, kind);
    }
    if !miri && variant == Variant::Bytewise && rng.below(150) == 0 {
        return hub_case(rng, kind);
    }
    if !miri && variant == Variant::Bytewise && rng.below(40) == 0 {
        return random_chain_case(rng, kind);
    }
    if !miri && variant == Variant::Bytewise && rng.below(150) == 0 {
        return dense_random(rng, kind);
    }
    if !miri && rng.below(300) == 0 {
        // random point of the chain-length sweep (C10 runs the sweep systematically)
        let len = rng.range(250, 1300);
        let n = *rng.pick(&[None, Some(1u32), Some(2)]);
        return chain_case(rng, variant, kind, len, n);
    }
    let (alpha, workload) = match variant {
        Variant::Bytewise => match rng.below(10) {
            0..=3 => (Alpha::Binary, "W2-binary"),
            4..=6 => (Alpha::Ascii, "W1-tiny-ascii"),
            _ => (if miri { Alpha::Utf8Low } else { Alpha::Utf8Full }, "W5-utf8"),
        },
        Variant::Charwise => match rng.below(10) {
            0..=2 => (Alpha::Ascii, "W1-tiny-ascii"),
            _ => (if miri || rng.chance(1, 3) { Alpha::Utf8Low } else { Alpha::Utf8Full }, "W5-utf8"),
        },
    };
    let sh = Shape {
        variant,
        kind,
        alpha,
        alpha_size: (1, 4),
        n_patterns: (1, if miri { 6 } else { 10 }),
        max_len: if miri { 4 } else { 6 },
        derive_pct: 40,
        n_haystacks: if miri { 2 } else { 6 },
        hay_pieces: (1, if miri { 6 } else { 14 }),
        workload,
    };
    case_from_shape(rng, &sh)
}

/// W3: block-spanning pattern sets.
pub fn large_case(rng: &mut Rng, variant: Variant, kind: MatchKind, max_patterns: usize) -> Case {
    // under libFuzzer keep every execution cheap: a few hundred states still span several blocks
    let fuzz = rng.is_bytes_mode();
    let max_patterns = if fuzz { max_patterns.min(150) } else { max_patterns };
    if !fuzz && max_patterns >= 2000 && rng.below(16) == 0 {
        return many_patterns_case(rng, variant, kind);
    }
    let n = rng.range(300.min(max_patterns), max_patterns);
    let (alpha, hay_frn): (Vec<Sym>, Vec<Sym>) = match variant {
        Variant::Bytewise => {
            let asz = *rng.pick(&[2usize, 3, 4, 16, 64, 200, 256]);
            let mut a: Vec<Sym> = Vec::new();
            if asz == 256 {
                a = (0u32..256).map(|b| vec![b as u8]).collect();
            } else {
                // always contain the bytes vacant slots default to
                let mut set: Vec<u8> = vec![0x00, 0x01];
                while set.len() < asz {
                    let b = rng.below(256) as u8;
                    if !set.contains(&b) {
                        set.push(b);
                    }
                }
                set.truncate(asz.max(2));
                for b in set {
                    a.push(vec![b]);
                }
            }
            let used: HashSet<Sym> = a.iter().cloned().collect();
            let f: Vec<Sym> = (0u32..256).map(|b| vec![b as u8]).filter(|s| !used.contains(s)).take(5).collect();
            (a, f)
        }
        Variant::Charwise => {
            let asz = *rng.pick(&[2usize, 5, 40, 130, 257, 700, 1500, 3000]);
            let base = *rng.pick(&[0x20u32, 0x3040, 0x4E00, 0x400, 0x1F300, 0xFF00]);
            let a = char_block(base, asz);
            let f = vec![ch('\u{1}'), ch('\u{10ffff}'), ch(char::from_u32(base - 1).unwrap_or('!'))];
            (a, f)
        }
    };
    let max_len = rng.range(2, 8);
    let pats = patterns(rng, &alpha, n, max_len, 15);
    let mut hays = Vec::new();
    for _ in 0..3 {
        let pieces = if fuzz { rng.range(5, 40) } else { rng.range(20, 400) };
        hays.push(haystack(rng, &pats, &alpha, &hay_frn, pieces));
    }
    let entry = if rng.chance(1, 2) { Entry::New } else { Entry::WithValues };
    let patterns_b: Vec<Vec<u8>> = pats.iter().map(|p| concat(p)).collect();
    let vals = match entry {
        Entry::New => (0..patterns_b.len() as u32).collect(),
        Entry::WithValues => values(rng, patterns_b.len()),
    };
    let nfb = Some(*rng.pick(&[1u32, 1, 2, 2, 3, 4, 8, 16, 33, 64]));
    Case {
        spec: Spec { variant, kind, nfb, entry },
        patterns: patterns_b,
        values: vals,
        haystacks: hays,
        utf8: variant == Variant::Charwise,
        workload: "W3-block-spanning",
    }
}

/// W11: more than 65 536 patterns (output positions beyond 16 bits, tens of thousands of states):
/// every 2-symbol string over a full alphabet plus some 1- and 3-symbol ones.
/// W11 with the common leading symbol forced (one symbol occurs more than 65 536 times).
pub fn many_patterns_common(rng: &mut Rng, variant: Variant, kind: MatchKind) -> Case {
    many_patterns_impl(rng, variant, kind, Some(true))
}

pub fn many_patterns_case(rng: &mut Rng, variant: Variant, kind: MatchKind) -> Case {
    many_patterns_impl(rng, variant, kind, None)
}

fn many_patterns_impl(rng: &mut Rng, variant: Variant, kind: MatchKind, force_common: Option<bool>) -> Case {
    let alpha: Vec<Sym> = match variant {
        Variant::Bytewise => (0u32..256).map(|b| vec![b as u8]).collect(),
        Variant::Charwise => {
            let base = *rng.pick(&[0x20u32, 0x3040, 0x4E00, 0x1F300]);
            char_block(base, rng.range(257, 300))
        }
    };
    let mut pats: Vec<Vec<u8>> = Vec::with_capacity(alpha.len() * alpha.len() + 3000);
    // half of the time every 2-symbol pattern is preceded by one common symbol, so that a single
    // symbol occurs more than 65 536 times in the pattern set
    let want_common = force_common.unwrap_or_else(|| rng.chance(1, 2));
    let common: Option<Sym> = if want_common { Some(rng.pick(&alpha).clone()) } else { None };
    for a in &alpha {
        for b in &alpha {
            let mut p = common.clone().unwrap_or_default();
            p.extend_from_slice(a);
            p.extend_from_slice(b);
            pats.push(p);
        }
    }
    for _ in 0..rng.range(0, 40) {
        pats.push(rng.pick(&alpha).clone());
    }
    let mut seen: HashSet<Vec<u8>> = pats.iter().cloned().collect();
    for _ in 0..rng.range(100, 3000) {
        let mut p = Vec::new();
        for _ in 0..3 {
            let a: &Sym = rng.pick(&alpha);
            p.extend_from_slice(a);
        }
        if seen.insert(p.clone()) {
            pats.push(p);
        }
    }
    // duplicates among the 1-symbol extras
    let mut s2 = HashSet::new();
    pats.retain(|p| s2.insert(p.clone()));
    rng.shuffle(&mut pats);
    let mut hays = Vec::new();
    // output records are numbered in breadth-first order: the records beyond 65 536 belong to the
    // longest patterns and to the lexicographically last of the 2-symbol ones — put those into a
    // haystack explicitly
    {
        let mut late: Vec<&Vec<u8>> = pats.iter().filter(|p| p.len() > 2 * alpha[0].len().max(1) || p.as_slice() >= alpha[alpha.len() - 2].as_slice()).collect();
        late.sort();
        let mut h = Vec::new();
        for p in late.iter().rev().take(40) {
            h.extend_from_slice(p);
        }
        for _ in 0..40 {
            if late.is_empty() {
                break;
            }
            let p: &Vec<u8> = late[rng.usize_below(late.len())];
            h.extend_from_slice(p);
        }
        hays.push(h);
    }
    for _ in 0..2 {
        let mut h = Vec::new();
        for _ in 0..rng.range(10, 300) {
            let a: &Sym = rng.pick(&alpha);
            h.extend_from_slice(a);
        }
        if variant == Variant::Charwise {
            h.extend_from_slice("\u{10ffff}".as_bytes());
            let a: &Sym = rng.pick(&alpha);
            h.extend_from_slice(a);
        }
        hays.push(h);
    }
    let entry = if rng.chance(1, 2) { Entry::New } else { Entry::WithValues };
    let vals = match entry {
        Entry::New => (0..pats.len() as u32).collect(),
        Entry::WithValues => values(rng, pats.len()),
    };
    Case {
        spec: Spec { variant, kind, nfb: Some(*rng.pick(&[1u32, 2, 4, 16, 16, 64])), entry },
        patterns: pats,
        values: vals,
        haystacks: hays,
        utf8: variant == Variant::Charwise,
        workload: "W11-more-than-65536-patterns",
    }
}

/// W12a: one non-branching chain of exactly `len` symbols (unit repeated), optionally with a
/// prefix pattern — fills double-array blocks with single-child states. Used as a deterministic
/// sweep over every length around the block-size multiples.
pub fn chain_case(rng: &mut Rng, variant: Variant, kind: MatchKind, len: usize, nfb: Option<u32>) -> Case {
    let akind = match variant {
        Variant::Bytewise => *rng.pick(&[Alpha::Ascii, Alpha::Binary]),
        Variant::Charwise => *rng.pick(&[Alpha::Ascii, Alpha::Utf8Low]),
    };
    let alpha = alphabet(rng, akind, 3);
    let unit: Vec<Sym> = (0..rng.range(1, 2)).map(|_| rng.pick(&alpha).clone()).collect();
    let long: Vec<Sym> = (0..len).map(|i| unit[i % unit.len()].clone()).collect();
    let mut pats = vec![concat(&long)];
    if rng.chance(1, 4) {
        pats.push(concat(&long[..rng.range(1, len - 1)]));
    }
    let mut h = concat(&long);
    h.extend(concat(&long[..len / 3]));
    let n = pats.len();
    Case {
        spec: Spec { variant, kind, nfb, entry: Entry::New },
        patterns: pats,
        values: (0..n as u32).collect(),
        haystacks: vec![h],
        utf8: akind != Alpha::Binary,
        workload: "W12-chain-length-sweep",
    }
}

/// W12b (byte-wise): "hub" states with 253..=256 children, next to patterns containing 0x00/0x01,
/// with small num_free_blocks: blocks are filled to the last slot, first slots of blocks stay
/// vacant, BASE values sit on block boundaries.
pub fn hub_case(rng: &mut Rng, kind: MatchKind) -> Case {
    let n_hubs = rng.range(1, 4);
    let mut pats: Vec<Vec<u8>> = Vec::new();
    let mut seen: HashSet<Vec<u8>> = HashSet::new();
    let mut hubs: Vec<Vec<u8>> = Vec::new();
    for _ in 0..n_hubs {
        let hub: Vec<u8> = (0..rng.range(1, 2)).map(|_| *rng.pick(&[b'y', b'z', 0x02u8, 0xFFu8, b'd'])).collect();
        let missing: Vec<u8> = match rng.below(4) {
            0 => vec![],
            1 => vec![0x00],
            2 => vec![0x00, 0x01],
            _ => vec![rng.below(256) as u8, 0x00],
        };
        for b in 0u32..256 {
            let b = b as u8;
            if missing.contains(&b) {
                continue;
            }
            let mut p = hub.clone();
            p.push(b);
            if seen.insert(p.clone()) {
                pats.push(p);
            }
        }
        hubs.push(hub);
    }
    for extra in [vec![0x00u8], vec![0x01u8], vec![0x00, 0x00], vec![0x00, b'y']] {
        if rng.chance(1, 2) && seen.insert(extra.clone()) {
            pats.push(extra);
        }
    }
    if rng.chance(1, 2) {
        // some third-level states so that later blocks get opened by non-root states
        for _ in 0..rng.range(1, 300) {
            let mut p = rng.pick(&hubs).clone();
            p.push(rng.below(256) as u8);
            p.push(*rng.pick(&[0x00u8, 0x01, b'a', 0xFF]));
            if seen.insert(p.clone()) {
                pats.push(p);
            }
        }
    }
    if rng.chance(1, 2) {
        rng.shuffle(&mut pats);
    }
    let mut hays = Vec::new();
    for _ in 0..4 {
        let mut h = Vec::new();
        for _ in 0..rng.range(1, 12) {
            let hb: &Vec<u8> = rng.pick(&hubs);
            h.extend_from_slice(hb);
            match rng.below(4) {
                0 => h.push(0x00),
                1 => h.extend_from_slice(&[0x00, 0x00]),
                2 => h.push(rng.below(256) as u8),
                _ => h.extend_from_slice(&[rng.below(256) as u8, 0x00]),
            }
        }
        hays.push(h);
    }
    let entry = if rng.chance(1, 2) { Entry::New } else { Entry::WithValues };
    let vals = match entry {
        Entry::New => (0..pats.len() as u32).collect(),
        Entry::WithValues => values(rng, pats.len()),
    };
    Case {
        spec: Spec { variant: Variant::Bytewise, kind, nfb: Some(*rng.pick(&[1u32, 2, 2, 3, 4, 5, 16, 64])), entry },
        patterns: pats,
        values: vals,
        haystacks: hays,
        utf8: false,
        workload: "W12-hub-states",
    }
}

/// W12c (byte-wise): dense two-level layouts whose state count is swept around exact multiples of
/// the block size: `r` single-byte patterns, a hub `[a]` with `c` children, and a few 2-byte extras
/// with small labels. Some parameter combinations fill every block to the last slot.
pub fn dense_case(rng: &mut Rng, kind: MatchKind, r: usize, c: usize, extras: usize, nfb: Option<u32>) -> Case {
    let pick_set = |rng: &mut Rng, n: usize| -> Vec<u8> {
        let n = n.min(256);
        let mut all: Vec<u8> = (0u32..256).map(|b| b as u8).collect();
        match rng.below(3) {
            0 => {}
            1 => all.reverse(),
            _ => rng.shuffle(&mut all),
        }
        all.truncate(n);
        all
    };
    let mut pats: Vec<Vec<u8>> = Vec::new();
    let mut seen: HashSet<Vec<u8>> = HashSet::new();
    let comb = rng.chance(1, 2);
    let tooth = *rng.pick(&[0x00u8, 0x00, 0x01, 0xFF]);
    let skip_zero = comb && rng.chance(1, 2);
    for b in pick_set(rng, r) {
        if skip_zero && b == 0 {
            continue; // the root's 0x00 edge (if any) then comes from one of the extras
        }
        // "comb": every first-level state has exactly one child, all on the same label
        let p = if comb { vec![b, tooth] } else { vec![b] };
        if seen.insert(p.clone()) {
            pats.push(p);
        }
    }
    let a = *rng.pick(&[0u8, 2, 255, b'a']);
    for b in pick_set(rng, c) {
        if seen.insert(vec![a, b]) {
            pats.push(vec![a, b]);
        }
    }
    let pool: [&[u8]; 9] = [&[2, 3], &[0, 1], &[1, 0], &[3, 2], &[2, 0], &[254, 255], &[0, 3, 2], &[0], &[1, 0, 0]];
    for _ in 0..extras {
        let e = rng.pick(&pool).to_vec();
        if seen.insert(e.clone()) {
            pats.push(e);
        }
    }
    if rng.chance(1, 2) {
        rng.shuffle(&mut pats);
    }
    let mut hays = Vec::new();
    let mut h = Vec::new();
    for _ in 0..rng.range(4, 40) {
        h.push(*rng.pick(&[a, 2, 3, 0, 1, 255]));
        h.push(*rng.pick(&[0u8, 0, 1, 3, 2, 255]));
    }
    hays.push(h);
    hays.push(vec![2, 0, 3, 0, a, 0, 0, 1, 0]);
    let n = pats.len();
    let entry = if rng.chance(1, 2) { Entry::New } else { Entry::WithValues };
    Case {
        spec: Spec { variant: Variant::Bytewise, kind, nfb, entry },
        values: if entry == Entry::New { (0..n as u32).collect() } else { values(rng, n) },
        patterns: pats,
        haystacks: hays,
        utf8: false,
        workload: "W12-dense-block-fill-sweep",
    }
}

/// W12d (byte-wise): a few long patterns of uniformly random bytes (every BASE = slot ^ label is
/// "random", blocks are filled by single-child states up to their last few slots) next to the
/// one-byte patterns 0x00 / 0x01, so that a stale CHECK in any leftover slot changes behaviour.
pub fn random_chain_case(rng: &mut Rng, kind: MatchKind) -> Case {
    let mut pats: Vec<Vec<u8>> = Vec::new();
    // either uniformly random bytes or a random word over a tiny alphabet ({1,2}, {a,b}, ...): with
    // two labels the BASE values of consecutive single-child states fill a block almost completely
    let tiny: Option<Vec<u8>> = if rng.chance(1, 2) { Some(rng.pick(&[vec![1u8, 2], vec![b'a', b'b'], vec![0x01, 0xFF], vec![2, 3, 5]]).clone()) } else { None };
    for _ in 0..rng.range(1, 3) {
        let len = if tiny.is_some() { rng.range(300, 1100) } else { rng.range(300, 3000) };
        pats.push((0..len).map(|_| match &tiny { Some(t) => *rng.pick(t), None => rng.below(256) as u8 }).collect());
    }
    pats.push(vec![0x00]);
    if rng.chance(1, 2) {
        pats.push(vec![0x01]);
    }
    if rng.chance(1, 2) {
        let k = rng.range(1, pats[0].len() - 1);
        let mut q = pats[0][..k].to_vec();
        q.push(pats[0][k].wrapping_add(1));
        pats.push(q);
    }
    let mut seen = HashSet::new();
    pats.retain(|p| seen.insert(p.clone()));
    rng.shuffle(&mut pats);
    let long = pats.iter().max_by_key(|p| p.len()).unwrap().clone();
    let mut h = Vec::new();
    for _ in 0..rng.range(4, 30) {
        let k = rng.range(1, long.len());
        h.extend_from_slice(&long[k.saturating_sub(rng.range(1, 12))..k]);
        h.push(*rng.pick(&[0x00u8, 0x00, 0x01, 0xFF]));
    }
    let n = pats.len();
    let entry = if rng.chance(1, 2) { Entry::New } else { Entry::WithValues };
    Case {
        spec: Spec { variant: Variant::Bytewise, kind, nfb: Some(*rng.pick(&[1u32, 1, 2, 2, 3, 5, 16])), entry },
        values: if entry == Entry::New { (0..n as u32).collect() } else { values(rng, n) },
        patterns: pats,
        haystacks: vec![h, long],
        utf8: false,
        workload: "W12-random-byte-chains",
    }
}

/// Random point of the W12c dense-layout family (wider ranges than the deterministic sweep).
pub fn dense_random(rng: &mut Rng, kind: MatchKind) -> Case {
    let r = rng.range(236, 256);
    let c = if rng.chance(1, 3) { 0 } else { rng.range(236, 256) };
    let e = rng.range(0, 4);
    let n = *rng.pick(&[None, None, Some(1u32), Some(2), Some(3), Some(64)]);
    dense_case(rng, kind, r, c, e, n)
}

/// W9: adversarial inputs for step counts (a^k b, a^k, Fibonacci words; haystacks (a^k c)*, runs).
pub fn adversarial_case(rng: &mut Rng, variant: Variant) -> Case {
    let k = rng.range(2, 24);
    let a = b'a';
    let mut pats: Vec<Vec<u8>> = Vec::new();
    match rng.below(4) {
        0 => {
            // a^k b plus all a^j
            let mut p = vec![a; k];
            p.push(b'b');
            pats.push(p);
            for j in 1..=k {
                if rng.chance(1, 2) {
                    pats.push(vec![a; j]);
                }
            }
        }
        1 => {
            // nested suffix chain: b a^j for j.., and a^k b
            for j in 1..=k.min(10) {
                let mut p = vec![b'b'];
                p.extend(vec![a; j]);
                pats.push(p);
            }
            let mut p = vec![a; k];
            p.push(b'b');
            pats.push(p);
        }
        2 => {
            // Fibonacci words
            let mut f0 = vec![b'b'];
            let mut f1 = vec![a];
            for _ in 0..rng.range(3, 9) {
                let mut f2 = f1.clone();
                f2.extend_from_slice(&f0);
                f0 = f1;
                f1 = f2;
                pats.push(f1.clone());
            }
        }
        _ => {
            // Thue-Morse prefixes
            let mut t = vec![a];
            for _ in 0..rng.range(2, 6) {
                let inv: Vec<u8> = t.iter().map(|&c| if c == a { b'b' } else { a }).collect();
                t.extend(inv);
                pats.push(t.clone());
            }
            pats.push(vec![a; k]);
        }
    }
    pats.sort();
    pats.dedup();
    rng.shuffle(&mut pats);
    let mut hays = Vec::new();
    // (a^k c)* : deep walk then a full fail cascade
    let mut h = Vec::new();
    for _ in 0..rng.range(3, 30) {
        h.extend(vec![a; k]);
        h.push(b'c');
    }
    hays.push(h);
    // (a^{k} b)* with near-misses
    let mut h = Vec::new();
    for _ in 0..rng.range(3, 30) {
        h.extend(vec![a; rng.range(1, k + 1)]);
        h.push(if rng.chance(1, 2) { b'b' } else { b'c' });
    }
    hays.push(h);
    hays.push(vec![a; rng.range(1, 200)]);
    let mut h = Vec::new();
    for _ in 0..rng.range(10, 300) {
        h.push(if rng.chance(2, 3) { a } else { b'b' });
    }
    hays.push(h);
    let n = pats.len();
    Case {
        spec: Spec { variant, kind: MatchKind::Standard, nfb: nfb(rng), entry: Entry::New },
        values: (0..n as u32).collect(),
        patterns: pats,
        haystacks: hays,
        utf8: true,
        workload: "W9-adversarial-steps",
    }
}

/// W4: all strings over `syms` of length 0..=max_len (in symbols).
pub fn exhaustive_haystacks(syms: &[Sym], max_len: usize, cap: usize) -> Vec<Vec<u8>> {
    let mut out: Vec<Vec<u8>> = vec![Vec::new()];
    let mut layer: Vec<Vec<u8>> = vec![Vec::new()];
    for _ in 0..max_len {
        let mut next = Vec::new();
        for h in &layer {
            for s in syms {
                let mut g = h.clone();
                g.extend_from_slice(s);
                next.push(g);
            }
        }
        if out.len() + next.len() > cap {
            break;
        }
        out.extend(next.iter().cloned());
        layer = next;
    }
    out
}

/// Picks a random kind.
pub fn any_kind(rng: &mut Rng) -> MatchKind {
    *rng.pick(&KINDS)
}

/// Symbols (as byte strings) occurring in the patterns of a UTF-8 or binary case.
pub fn case_symbols(c: &Case) -> Vec<Sym> {
    let mut set: Vec<Sym> = Vec::new();
    let mut seen: HashSet<Sym> = HashSet::new();
    for p in &c.patterns {
        if c.utf8 {
            for chh in std::str::from_utf8(p).unwrap().chars() {
                let s = ch(chh);
                if seen.insert(s.clone()) {
                    set.push(s);
                }
            }
        } else {
            for &b in p {
                if seen.insert(vec![b]) {
                    set.push(vec![b]);
                }
            }
        }
    }
    set
}
