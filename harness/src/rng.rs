//! Small deterministic PRNG (splitmix64 seeding + xoshiro256**). No third-party crates.

#[derive(Clone)]
pub struct Rng {
    s: [u64; 4],
    /// coverage-guided mode: decisions are read from a byte string (zeros once exhausted)
    bytes: Option<(std::rc::Rc<Vec<u8>>, usize)>,
}

thread_local! {
    static FUZZ_BYTES: std::cell::RefCell<Option<std::rc::Rc<Vec<u8>>>> = std::cell::RefCell::new(None);
}

/// While set, every `Rng::for_case` on this thread returns a generator that reads its decisions
/// from these bytes (used by the libFuzzer target so that mutations of the input map to local
/// changes of the generated case).
pub fn set_fuzz_bytes(b: Option<Vec<u8>>) {
    FUZZ_BYTES.with(|f| *f.borrow_mut() = b.map(std::rc::Rc::new));
}

pub fn splitmix(x: &mut u64) -> u64 {
    *x = x.wrapping_add(0x9E37_79B9_7F4A_7C15);
    let mut z = *x;
    z = (z ^ (z >> 30)).wrapping_mul(0xBF58_476D_1CE4_E5B9);
    z = (z ^ (z >> 27)).wrapping_mul(0x94D0_49BB_1331_11EB);
    z ^ (z >> 31)
}

/// FNV-1a over bytes, used for stream names and case digests.
pub fn fnv(bytes: &[u8]) -> u64 {
    let mut h: u64 = 0xcbf2_9ce4_8422_2325;
    for &b in bytes {
        h ^= u64::from(b);
        h = h.wrapping_mul(0x0000_0100_0000_01B3);
    }
    h
}

impl Rng {
    pub fn new(seed: u64) -> Self {
        let mut x = seed;
        let s = [splitmix(&mut x), splitmix(&mut x), splitmix(&mut x), splitmix(&mut x)];
        Self { s, bytes: None }
    }

    /// Reads k decision bytes; once the input is exhausted the generator falls back to the
    /// pseudo-random stream seeded from the whole input (so loops that wait for a fresh value end).
    fn take_bytes(&mut self, k: usize) -> Option<u64> {
        let (data, pos) = self.bytes.as_mut().expect("bytes mode");
        if *pos + k > data.len() {
            let seed = fnv(data);
            self.bytes = None;
            *self = Self::new(seed);
            return None;
        }
        let mut v = 0u64;
        for i in 0..k {
            v |= u64::from(data[*pos + i]) << (8 * i);
        }
        *pos += k;
        Some(v)
    }

    /// Independent stream for (seed, stream name, index).
    pub fn for_case(seed: u64, stream: &str, idx: u64) -> Self {
        if let Some(b) = FUZZ_BYTES.with(|f| f.borrow().clone()) {
            let mut r = Self::new(0);
            r.bytes = Some((b, 0));
            return r;
        }
        let mut x = seed ^ fnv(stream.as_bytes()).rotate_left(17);
        let a = splitmix(&mut x);
        let mut y = a ^ idx.wrapping_mul(0xD6E8_FEB8_6659_FD93);
        Self::new(splitmix(&mut y))
    }

    /// true while decisions are read from fuzz bytes
    pub fn is_bytes_mode(&self) -> bool {
        self.bytes.is_some()
    }

    pub fn next_u64(&mut self) -> u64 {
        if self.bytes.is_some() {
            if let Some(v) = self.take_bytes(8) {
                return v;
            }
        }
        let r = self.s[1].wrapping_mul(5).rotate_left(7).wrapping_mul(9);
        let t = self.s[1] << 17;
        self.s[2] ^= self.s[0];
        self.s[3] ^= self.s[1];
        self.s[1] ^= self.s[2];
        self.s[0] ^= self.s[3];
        self.s[2] ^= t;
        self.s[3] = self.s[3].rotate_left(45);
        r
    }

    /// Uniform in 0..n (n > 0).
    pub fn below(&mut self, n: u64) -> u64 {
        debug_assert!(n > 0);
        if self.bytes.is_some() {
            let k = if n <= 256 { 1 } else if n <= 65_536 { 2 } else { 8 };
            if let Some(v) = self.take_bytes(k) {
                return v % n;
            }
        }
        // multiply-shift; bias is irrelevant here
        ((u128::from(self.next_u64()) * u128::from(n)) >> 64) as u64
    }

    pub fn usize_below(&mut self, n: usize) -> usize {
        self.below(n as u64) as usize
    }

    /// Uniform in lo..=hi.
    pub fn range(&mut self, lo: usize, hi: usize) -> usize {
        debug_assert!(lo <= hi);
        lo + self.usize_below(hi - lo + 1)
    }

    pub fn chance(&mut self, num: u64, den: u64) -> bool {
        self.below(den) < num
    }

    pub fn pick<'a, T>(&mut self, xs: &'a [T]) -> &'a T {
        &xs[self.usize_below(xs.len())]
    }

    pub fn shuffle<T>(&mut self, xs: &mut [T]) {
        for i in (1..xs.len()).rev() {
            let j = self.usize_below(i + 1);
            xs.swap(i, j);
        }
    }
}
