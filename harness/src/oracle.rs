//! Reference models, written directly from the property statements.
//!
//! `Occ(P,h)` = all (s,e,i) with h[s..e] == P[i]. The models are selections/orderings of Occ.
//! Occurrences are found by a plain pattern trie walked from every start position (no failure
//! function, no automaton state carried between positions, no double array), and — for the
//! harness self-test and small cases — by direct slice comparison.

use std::collections::HashMap;

pub type O = (usize, usize, usize); // (start, end, pattern index)

pub struct PatTrie {
    edges: HashMap<(u32, u8), u32>,
    term: Vec<u32>, // pattern index at node or u32::MAX
}

const NONE: u32 = u32::MAX;

impl PatTrie {
    /// Patterns must be non-empty; a repeated pattern keeps the first index.
    pub fn new(patterns: &[Vec<u8>]) -> Self {
        let mut t = PatTrie { edges: HashMap::new(), term: vec![NONE] };
        for (i, p) in patterns.iter().enumerate() {
            if p.is_empty() {
                continue;
            }
            let mut n = 0u32;
            for &b in p {
                let next = t.term.len() as u32;
                let e = *t.edges.entry((n, b)).or_insert(next);
                if e == next {
                    t.term.push(NONE);
                }
                n = e;
            }
            if t.term[n as usize] == NONE {
                t.term[n as usize] = i as u32;
            }
        }
        t
    }

    /// Number of nodes (root included) = 1 + number of distinct non-empty prefixes.
    pub fn num_nodes(&self) -> usize {
        self.term.len()
    }

    /// All occurrences, sorted by (start, end).
    pub fn occurrences(&self, hay: &[u8]) -> Vec<O> {
        let mut v = Vec::new();
        for s in 0..hay.len() {
            let mut n = 0u32;
            for (k, &b) in hay[s..].iter().enumerate() {
                match self.edges.get(&(n, b)) {
                    Some(&m) => {
                        n = m;
                        let t = self.term[n as usize];
                        if t != NONE {
                            v.push((s, s + k + 1, t as usize));
                        }
                    }
                    None => break,
                }
            }
        }
        v
    }
}

/// Direct slice comparison (quadratic). Used to cross-check the trie walker.
pub fn occurrences_naive(patterns: &[Vec<u8>], hay: &[u8]) -> Vec<O> {
    let mut v = Vec::new();
    for s in 0..hay.len() {
        for (i, p) in patterns.iter().enumerate() {
            if !p.is_empty() && hay.len() - s >= p.len() && &hay[s..s + p.len()] == p.as_slice() {
                v.push((s, s + p.len(), i));
            }
        }
    }
    v.sort_by_key(|&(s, e, _)| (s, e));
    v
}

/// C01: every occurrence, by end ascending, longest first within one end.
pub fn overlap(occ: &[O]) -> Vec<O> {
    let mut v = occ.to_vec();
    v.sort_by(|a, b| a.1.cmp(&b.1).then((b.1 - b.0).cmp(&(a.1 - a.0))));
    v
}

/// C05: longest occurrence per end position.
pub fn nosuffix(occ: &[O]) -> Vec<O> {
    let all = overlap(occ);
    let mut v: Vec<O> = Vec::new();
    for o in all {
        if v.last().map_or(true, |l| l.1 != o.1) {
            v.push(o);
        }
    }
    v
}

/// C02: among occurrences lying entirely at/after the previous end: earliest end, longest.
pub fn find(occ: &[O]) -> Vec<O> {
    // occ is sorted by (start, end)
    let mut v = Vec::new();
    let mut prev = 0usize;
    let mut lo = 0usize;
    loop {
        while lo < occ.len() && occ[lo].0 < prev {
            lo += 1;
        }
        let mut best: Option<O> = None;
        for &o in &occ[lo..] {
            if let Some(b) = best {
                if o.0 >= b.1 {
                    break; // cannot end earlier than (or at) b.1 any more
                }
                if o.1 < b.1 || (o.1 == b.1 && o.0 < b.0) {
                    best = Some(o);
                }
            } else {
                best = Some(o);
            }
        }
        match best {
            Some(b) => {
                v.push(b);
                prev = b.1;
            }
            None => return v,
        }
    }
}

/// C03: smallest start at/after the previous end, then longest.
pub fn leftmost_longest(occ: &[O]) -> Vec<O> {
    leftmost(occ, |o, b| o.1 > b.1)
}

/// C04: smallest start at/after the previous end, then earliest registered.
pub fn leftmost_first(occ: &[O]) -> Vec<O> {
    leftmost(occ, |o, b| o.2 < b.2)
}

fn leftmost(occ: &[O], better_at_same_start: impl Fn(&O, &O) -> bool) -> Vec<O> {
    // occ is sorted by (start, end)
    let mut v = Vec::new();
    let mut prev = 0usize;
    let mut lo = 0usize;
    loop {
        while lo < occ.len() && occ[lo].0 < prev {
            lo += 1;
        }
        let mut best: Option<O> = None;
        for o in &occ[lo..] {
            if let Some(b) = best {
                if o.0 > b.0 {
                    break;
                }
                if better_at_same_start(o, &b) {
                    best = Some(*o);
                }
            } else {
                best = Some(*o);
            }
        }
        match best {
            Some(b) => {
                v.push(b);
                prev = b.1;
            }
            None => return v,
        }
    }
}

/// Indices of patterns that have an earlier-registered proper prefix (shadowed under
/// leftmost-first).
pub fn shadowed(patterns: &[Vec<u8>]) -> Vec<bool> {
    let mut first_index: HashMap<&[u8], usize> = HashMap::new();
    for (i, p) in patterns.iter().enumerate() {
        first_index.entry(p.as_slice()).or_insert(i);
    }
    patterns
        .iter()
        .enumerate()
        .map(|(j, p)| (1..p.len()).any(|k| first_index.get(&p[..k]).map_or(false, |&i| i < j)))
        .collect()
}

/// C15: 1 + number of distinct non-empty prefixes of the reportable patterns.
pub fn expected_states(patterns: &[Vec<u8>], leftmost_first: bool, charwise: bool) -> usize {
    let sh = if leftmost_first { shadowed(patterns) } else { vec![false; patterns.len()] };
    let mut set: std::collections::HashSet<&[u8]> = std::collections::HashSet::new();
    for (p, &s) in patterns.iter().zip(sh.iter()) {
        if s {
            continue;
        }
        if charwise {
            let st = std::str::from_utf8(p).expect("harness: utf8");
            for (i, c) in st.char_indices() {
                set.insert(&p[..i + c.len_utf8()]);
            }
        } else {
            for k in 1..=p.len() {
                set.insert(&p[..k]);
            }
        }
    }
    1 + set.len()
}

/// Harness self-test: the models must satisfy the relations their statements imply.
pub fn self_test() -> Result<(), String> {
    let pats: Vec<Vec<u8>> = ["a", "ab", "abc", "bc", "c", "cab", "bca"].iter().map(|s| s.as_bytes().to_vec()).collect();
    let hay = b"abcabcabxcabca".to_vec();
    let t = PatTrie::new(&pats);
    let occ = t.occurrences(&hay);
    if occ != occurrences_naive(&pats, &hay) {
        return Err("trie walker != naive occurrences".into());
    }
    let ov = overlap(&occ);
    if ov.len() != occ.len() {
        return Err("overlap lost occurrences".into());
    }
    let ns = nosuffix(&occ);
    let mut ends: Vec<usize> = occ.iter().map(|o| o.1).collect();
    ends.sort_unstable();
    ends.dedup();
    if ns.iter().map(|o| o.1).collect::<Vec<_>>() != ends {
        return Err("nosuffix ends != distinct ends".into());
    }
    for w in [find(&occ), leftmost_longest(&occ), leftmost_first(&occ)] {
        for p in w.windows(2) {
            if p[1].0 < p[0].1 {
                return Err("non-overlapping model overlaps".into());
            }
        }
        if w.is_empty() {
            return Err("model empty on matching haystack".into());
        }
    }
    // documented examples
    let p: Vec<Vec<u8>> = ["bcd", "ab", "a"].iter().map(|s| s.as_bytes().to_vec()).collect();
    let o = occurrences_naive(&p, b"abcd");
    if overlap(&o) != vec![(0, 1, 2), (0, 2, 1), (1, 4, 0)] || find(&o) != vec![(0, 1, 2), (1, 4, 0)] {
        return Err("README example (standard)".into());
    }
    let p: Vec<Vec<u8>> = ["ab", "a", "abcd"].iter().map(|s| s.as_bytes().to_vec()).collect();
    let o = occurrences_naive(&p, b"abcd");
    if leftmost_longest(&o) != vec![(0, 4, 2)] || leftmost_first(&o) != vec![(0, 2, 0)] {
        return Err("README example (leftmost)".into());
    }
    if shadowed(&p) != vec![false, false, true] {
        return Err("shadowed()".into());
    }
    if expected_states(&p, true, false) != 3 || expected_states(&p, false, false) != 5 {
        return Err("expected_states()".into());
    }
    Ok(())
}
