//! C10: construction accepts exactly the valid collections, reports the documented error kind
//! otherwise, and never panics (the panic monitor is the catch_unwind around every case; an
//! abort is attributed through the case journal).

use crate::case::Case;
use crate::common::*;
use crate::gen;
use crate::json::{bytes_j, J};
use crate::oracle;
use crate::pma::{self, err_kind, kind_name, Entry, ErrKind, Spec, Variant};
use crate::props::typed::Val;
use crate::report::Known;
use crate::rng::Rng;
use daachorse::{Empty, MatchKind};
use std::collections::HashMap;

pub fn num_cases(ctx: &Ctx) -> u64 {
    match (ctx.mode, ctx.tier) {
        (Mode::Miri, _) => 24,
        (Mode::Asan | Mode::Tsan, _) => 1500,
        (Mode::Native, Tier::Quick) => 14_000,
        (Mode::Native, Tier::Thorough) => 200_000,
    }
}

/// number of cases of the deterministic chain-length sweep (lengths 250..=1299, 4 configurations each)
const SWEEP_LEN: usize = 4 * 1050;

struct Coll {
    spec: Spec,
    patterns: Vec<Vec<u8>>,
    injected: Vec<String>,
    workload: &'static str,
}

fn corpus() -> Vec<Coll> {
    let mut v = Vec::new();
    let s = |x: &[&str]| -> Vec<Vec<u8>> { x.iter().map(|p| p.as_bytes().to_vec()).collect() };
    for variant in [Variant::Bytewise, Variant::Charwise] {
        for kind in crate::pma::KINDS {
            for entry in [Entry::New, Entry::WithValues] {
                let spec = Spec { variant, kind, nfb: None, entry };
                // witnesses of the known finding D1 (and their twins under the other kinds)
                v.push(Coll { spec, patterns: s(&["a", "ab", "ab"]), injected: vec!["repeat of a shadowed pattern".into()], workload: "regression-corpus" });
                v.push(Coll { spec, patterns: s(&["ab", "a", "ab"]), injected: vec!["repeat, later copy shadowed".into()], workload: "regression-corpus" });
                v.push(Coll { spec, patterns: s(&["ab", "ab", "a"]), injected: vec!["plain repeat".into()], workload: "regression-corpus" });
                v.push(Coll { spec, patterns: s(&[]), injected: vec!["empty collection".into()], workload: "regression-corpus" });
                v.push(Coll { spec, patterns: s(&["a", "", "b"]), injected: vec!["empty pattern".into()], workload: "regression-corpus" });
                v.push(Coll { spec, patterns: s(&[""]), injected: vec!["empty pattern".into()], workload: "regression-corpus" });
                v.push(Coll { spec, patterns: s(&["a", "ab", "abc"]), injected: vec![], workload: "regression-corpus" });
            }
        }
    }
    v
}

fn gen_coll(ctx: &Ctx, rng: &mut Rng, idx: u64) -> Coll {
    let corp = corpus();
    if (idx as usize) < corp.len() {
        return corp.into_iter().nth(idx as usize).unwrap();
    }
    // W12a: systematic sweep over chain lengths 250..1300 x {default, num_free_blocks(1)} x variant
    // (valid collections that fill double-array blocks exactly: construction must not panic)
    let sweep = idx as usize - corp.len();
    if !ctx.slow() && sweep < SWEEP_LEN {
        let len = 250 + sweep / 4;
        let nfb = if sweep % 2 == 0 { None } else { Some(1u32) };
        let variant = if (sweep / 2) % 2 == 0 { Variant::Bytewise } else { Variant::Charwise };
        let kind = crate::pma::KINDS[(sweep / 4) % 3];
        let c = gen::chain_case(rng, variant, kind, len, nfb);
        return Coll { spec: c.spec, patterns: c.patterns, injected: vec![], workload: c.workload };
    }
    let variant = if rng.chance(1, 2) { Variant::Bytewise } else { Variant::Charwise };
    let kind = gen::any_kind(rng);
    let base: Case = if ctx.slow() {
        gen::small_case(rng, variant, kind, true)
    } else if rng.below(30) == 0 {
        gen::large_case(rng, variant, kind, if ctx.tier == Tier::Thorough { 6000 } else { 2000 })
    } else {
        gen::small_case(rng, variant, kind, false)
    };
    let mut pats = base.patterns.clone();
    let mut injected = Vec::new();
    if !ctx.slow() && rng.below(60) == 0 {
        // a long pattern (150..600 symbols of mixed widths) registered twice: the duplicate is
        // reported through an error that carries the pattern's text
        let syms = gen::case_symbols(&base);
        if !syms.is_empty() {
            let mut long: Vec<u8> = Vec::new();
            for _ in 0..rng.range(150, 600) {
                let sy: &Vec<u8> = rng.pick(&syms);
                long.extend_from_slice(sy);
                if base.utf8 && rng.chance(1, 3) {
                    long.extend_from_slice(rng.pick(&["a", "é", "世", "😀"]).as_bytes());
                }
            }
            let pos = rng.usize_below(pats.len() + 1);
            pats.insert(pos, long.clone());
            pats.push(long);
            injected.push("a long pattern registered twice".to_string());
        }
    }
    let entry = if rng.chance(1, 2) { Entry::New } else { Entry::WithValues };
    let nfb = Some(1 + rng.below(64) as u32);
    let spec = Spec { variant, kind, nfb: if rng.chance(1, 4) { None } else { nfb }, entry };
    let r = rng.below(100);
    if r < 30 {
        // valid
    } else if r < 34 {
        pats.clear();
        injected.push("empty collection".to_string());
    } else {
        let n_defects = if rng.chance(1, 4) { 2 } else { 1 };
        for _ in 0..n_defects {
            match rng.below(10) {
                0..=2 => {
                    let pos = match rng.below(4) {
                        0 => 0,
                        1 => pats.len(),
                        2 => pats.len() / 2,
                        _ => rng.usize_below(pats.len() + 1),
                    };
                    pats.insert(pos, Vec::new());
                    injected.push(format!("empty pattern at {pos}"));
                }
                3..=6 => {
                    if pats.is_empty() {
                        continue;
                    }
                    let i = rng.usize_below(pats.len());
                    let pos = match rng.below(4) {
                        0 => 0,
                        1 => pats.len(),
                        2 => (i + 1).min(pats.len()),
                        _ => rng.usize_below(pats.len() + 1),
                    };
                    let p = pats[i].clone();
                    pats.insert(pos, p);
                    injected.push(format!("repeat of pattern {i} inserted at {pos}"));
                }
                _ => {
                    // repeat of a pattern that has a proper prefix in the set (shadowing shapes)
                    if pats.is_empty() {
                        continue;
                    }
                    let i = rng.usize_below(pats.len());
                    let mut longer = pats[i].clone();
                    if base.utf8 {
                        longer.extend_from_slice("é".as_bytes());
                    } else {
                        longer.push(0x00);
                    }
                    let order = rng.below(3);
                    match order {
                        0 => {
                            pats.push(longer.clone());
                            pats.push(longer);
                        }
                        1 => {
                            pats.insert(0, longer.clone());
                            pats.push(longer);
                        }
                        _ => {
                            pats.insert(0, longer.clone());
                            pats.insert(0, longer);
                        }
                    }
                    injected.push(format!("extension of pattern {i} registered twice (order {order})"));
                }
            }
        }
    }
    Coll { spec, patterns: pats, injected, workload: base.workload }
}

#[derive(Debug, PartialEq, Eq, Clone, Copy)]
enum Outcome {
    Ok,
    Err(ErrKind),
}

fn run_typed<V: Val>(ctx: &mut Ctx, idx: u64, rng: &mut Rng, coll: &Coll) {
    let spec = coll.spec;
    let n = coll.patterns.len();
    ctx.rep.evaluations += 1;
    ctx.rep.note("index_value_types", V::NAME);
    ctx.rep.note("kinds", kind_name(spec.kind));
    // ---- acceptance oracle: a predicate on the collection ---------------------------------------
    let has_empty = coll.patterns.iter().any(|p| p.is_empty());
    let mut first: HashMap<&[u8], usize> = HashMap::new();
    let mut later_copies: Vec<usize> = Vec::new();
    for (i, p) in coll.patterns.iter().enumerate() {
        if first.contains_key(p.as_slice()) {
            later_copies.push(i);
        } else {
            first.insert(p.as_slice(), i);
        }
    }
    let has_dup = !later_copies.is_empty();
    let conv_fail = spec.entry == Entry::New && V::MAX_INDEX.map_or(false, |m| n > m + 1);
    let mut admissible: Vec<ErrKind> = Vec::new();
    if n == 0 {
        admissible.push(ErrKind::InvalidArgument);
    } else {
        if has_empty {
            admissible.push(ErrKind::InvalidArgument);
        }
        if has_dup {
            admissible.push(ErrKind::DuplicatePattern);
        }
        if conv_fail {
            admissible.push(ErrKind::InvalidConversion);
        }
    }
    // ---- the real builder ----------------------------------------------------------------------
    let vals: Vec<V> = match spec.entry {
        Entry::New => Vec::new(),
        Entry::WithValues => (0..n).map(|_| V::from_seed(rng.next_u64())).collect(),
    };
    let res = pma::build::<V>(spec, &coll.patterns, &vals);
    let outcome = match &res {
        Ok(_) => Outcome::Ok,
        Err(e) => Outcome::Err(err_kind(e)),
    };
    if ctx.replay {
        println!(
            "case {idx}: spec={:?} V={} injected={:?} patterns={:?} -> {:?} (admissible errors {:?})",
            spec,
            V::NAME,
            coll.injected,
            coll.patterns.iter().take(40).map(|p| String::from_utf8_lossy(p).to_string()).collect::<Vec<_>>(),
            outcome,
            admissible
        );
    }
    let verdict_ok = match outcome {
        Outcome::Ok => admissible.is_empty(),
        Outcome::Err(k) => admissible.contains(&k),
    };
    if admissible.is_empty() {
        ctx.rep.count("valid_collections", 1);
    } else {
        ctx.rep.count("invalid_collections", 1);
        for k in &admissible {
            ctx.rep.count(&format!("expected_{k:?}"), 1);
        }
    }
    let detail = || {
        J::obj()
            .set("spec", Case::spec_j(&spec))
            .set("index_or_value_type", J::s(V::NAME))
            .set("num_patterns", J::us(n))
            .set("patterns", J::arr(coll.patterns.iter().take(80).map(|p| bytes_j(p))))
            .set("injected_defects", J::arr(coll.injected.iter().map(|s| J::s(s))))
            .set("result", J::Str(format!("{outcome:?}")))
            .set("error_message", res.as_ref().err().map_or(J::Null, |e| J::Str(e.to_string())))
            .set("admissible_error_kinds", J::Str(format!("{admissible:?}")))
    };
    if !verdict_ok {
        // known finding D1: leftmost-first, accepted, only defect = repeats whose later copies all
        // have an earlier-registered proper prefix at their position
        let sh = oracle::shadowed(&coll.patterns);
        let d1 = spec.kind == MatchKind::LeftmostFirst
            && outcome == Outcome::Ok
            && admissible == vec![ErrKind::DuplicatePattern]
            && later_copies.iter().all(|&j| sh[j]);
        if d1 {
            ctx.rep.count("known_finding_D1_observed", 1);
            if ctx.rep.known.len() < 3 {
                ctx.rep.known.push(Known {
                    finding_id: "D1".into(),
                    message: format!(
                        "leftmost-first build accepts a repeated pattern whose later copy is shadowed by an earlier-registered proper prefix: {:?} ({})",
                        coll.patterns.iter().take(6).map(|p| String::from_utf8_lossy(p).to_string()).collect::<Vec<_>>(),
                        if spec.variant == Variant::Bytewise { "byte-wise" } else { "char-wise" }
                    ),
                    case_idx: idx,
                });
            }
        } else {
            let msg = match outcome {
                Outcome::Ok => format!("build succeeded on a collection that must be rejected with {admissible:?}"),
                Outcome::Err(k) => {
                    if admissible.is_empty() {
                        format!("build rejected a valid collection with {k:?}")
                    } else {
                        format!("build returned {k:?}, the documented kind(s) for this collection: {admissible:?}")
                    }
                }
            };
            ctx.rep.violation("acceptance", msg, idx, detail());
        }
    }
    let nontrivial = n >= 3 && (!coll.injected.is_empty() || res.as_ref().map_or(false, |p| p.lens().0 >= 512));
    if nontrivial {
        let mut buf: Vec<u8> = format!("{:?}{}", spec, V::NAME).into_bytes();
        for p in &coll.patterns {
            buf.extend_from_slice(p);
            buf.push(0xFF);
        }
        ctx.rep.nontrivial.insert(crate::rng::fnv(&buf));
        ctx.rep.sample(detail);
    }
    ctx.rep.note("workloads", coll.workload);
}

/// Documented size limit of the byte-wise automaton: a collection of exactly 2^24-1 patterns is
/// within the limit and must build. (What happens beyond the limit is outside the statement; the
/// C01/C02/C05 probes check that an automaton accepted there still answers correctly.)
fn limit_probe(ctx: &mut Ctx, idx: u64) {
    use daachorse::DoubleArrayAhoCorasickBuilder;
    ctx.rep.note("workloads", "W13-documented-limit-probe");
    for (n, want_ok) in [((1usize << 24) - 1, true)] {
        ctx.rep.evaluations += 1;
        let it = (0..n as u32).map(|i| ([(i >> 16) as u8, (i >> 8) as u8, i as u8], 0u8));
        let kind = crate::pma::KINDS[(ctx.seed as usize + n) % 3];
        let r = DoubleArrayAhoCorasickBuilder::new().match_kind(kind).build_with_values::<_, _, u8>(it);
        let outcome = match &r {
            Ok(_) => "Ok".to_string(),
            Err(e) => format!("Err({:?})", err_kind(e)),
        };
        ctx.rep.count("limit_probe_builds", 1);
        let ok = if want_ok { r.is_ok() } else { matches!(&r, Err(e) if err_kind(e) == ErrKind::AutomatonScale) };
        if !ok {
            ctx.rep.violation(
                "acceptance",
                format!(
                    "byte-wise build_with_values of {n} distinct 3-byte patterns ({}) returned {outcome}; the documented limit is 2^24-1 patterns: {}",
                    kind_name(kind),
                    if want_ok { "this collection is within the limit and must build" } else { "this collection exceeds it and must be rejected with the documented scale error" }
                ),
                idx,
                J::obj().set("num_patterns", J::us(n)).set("result", J::s(&outcome)),
            );
        }
    }
    ctx.rep.nontrivial.insert(0x11a1_7010);
}

pub fn run_case(ctx: &mut Ctx, idx: u64) {
    if idx == 84 + SWEEP_LEN as u64 && ctx.mode == Mode::Native {
        limit_probe(ctx, idx);
        return;
    }
    let mut rng = Rng::for_case(ctx.seed, "C10", idx);
    let mut coll = gen_coll(ctx, &mut rng, idx);
    // index-conversion boundary for narrow types: exactly max+1 (valid) or max+2 (invalid) patterns
    let tsel = idx % 7;
    if !ctx.slow() && coll.spec.entry == Entry::New && (tsel == 1 || tsel == 2 || tsel == 3) && rng.chance(1, 2) && (idx as usize) >= 84 + SWEEP_LEN {
        let maxi = match tsel {
            1 => 255usize,
            2 => 127,
            _ => 65535,
        };
        if tsel != 3 || rng.chance(1, 8) {
            let want = maxi + 1 + rng.usize_below(2);
            let mut k = 0u32;
            let have: std::collections::HashSet<Vec<u8>> = coll.patterns.iter().cloned().collect();
            while coll.patterns.len() < want {
                let extra = format!("~{k:x}").into_bytes();
                if !have.contains(&extra) {
                    coll.patterns.push(extra);
                }
                k += 1;
            }
            if coll.injected.is_empty() {
                coll.patterns.truncate(want);
            }
            coll.injected.push(format!("{} patterns for an index type whose last convertible index is {maxi}", coll.patterns.len()));
        }
    }
    let r = &mut rng;
    match tsel {
        0 => run_typed::<u32>(ctx, idx, r, &coll),
        1 => run_typed::<u8>(ctx, idx, r, &coll),
        2 => run_typed::<i8>(ctx, idx, r, &coll),
        3 => run_typed::<u16>(ctx, idx, r, &coll),
        4 => run_typed::<usize>(ctx, idx, r, &coll),
        5 => run_typed::<Empty>(ctx, idx, r, &coll),
        _ => run_typed::<i64>(ctx, idx, r, &coll),
    }
}
