//! C12: byte-iterator entry points — same results as the slice entry points, and the source is
//! read lazily, strictly left to right, each byte once; at the moment a match ending at e is
//! returned exactly e bytes have been pulled.
//!
//! Events are recorded at the boundary (the source iterator handed to the library, and the
//! harness loop calling `next()`), in one append-only log; an offline checker decides.

use crate::case::Case;
use crate::common::*;
use crate::gen;
use crate::json::{bytes_j, J};
use crate::pma::{Method, Pma, Variant, M};
use crate::rng::Rng;
use daachorse::MatchKind;
use std::cell::RefCell;
use std::rc::Rc;

#[derive(Clone, Copy, Debug, PartialEq, Eq)]
pub enum Ev {
    /// source yielded byte number k (0-based)
    Pull(usize),
    /// source returned None
    End,
    /// streaming source: the search asked for byte k which the caller had not supplied yet
    Refill(usize),
    /// search iterator returned a match (start, end)
    Ret(usize, usize),
    /// search iterator returned None
    Done,
    /// harness looked at the source between two next() calls: bytes pulled so far
    Inspect(usize),
}

pub type Log = Rc<RefCell<Vec<Ev>>>;

/// What the instrumented source tells the search about its length (real callers hand in
/// `slice.iter().copied()` / `str::bytes()` with an exact hint, or hand-written iterators with none).
#[derive(Clone, Copy, Debug, PartialEq, Eq)]
pub enum Hint {
    Unknown,
    Exact,
    LowerBound,
}

pub struct Source {
    data: Rc<Vec<u8>>,
    pos: usize,
    supplied: usize,
    chunk: usize,
    log: Log,
    hint: Hint,
}

impl Source {
    pub fn new(data: Rc<Vec<u8>>, log: Log, streaming_chunk: Option<usize>) -> Self {
        let supplied = if streaming_chunk.is_some() { 0 } else { data.len() };
        Source { data, pos: 0, supplied, chunk: streaming_chunk.unwrap_or(0), log, hint: Hint::Unknown }
    }
    pub fn with_hint(mut self, hint: Hint) -> Self {
        self.hint = hint;
        self
    }
}

impl Iterator for Source {
    type Item = u8;
    fn next(&mut self) -> Option<u8> {
        if self.pos >= self.data.len() {
            self.log.borrow_mut().push(Ev::End);
            return None;
        }
        if self.pos >= self.supplied {
            self.log.borrow_mut().push(Ev::Refill(self.pos));
            self.supplied = (self.supplied + self.chunk.max(1)).min(self.data.len());
        }
        let b = self.data[self.pos];
        self.log.borrow_mut().push(Ev::Pull(self.pos));
        self.pos += 1;
        Some(b)
    }

    fn size_hint(&self) -> (usize, Option<usize>) {
        let rem = self.data.len() - self.pos.min(self.data.len());
        match self.hint {
            Hint::Unknown => (0, None),
            Hint::Exact => (rem, Some(rem)),
            Hint::LowerBound => (rem, None),
        }
    }
}

/// Offline checker over one recorded history.
pub fn check_log(log: &[Ev], hay_len: usize) -> Result<(), String> {
    let mut pulled = 0usize;
    let mut ended = false;
    let mut done = false;
    for (i, ev) in log.iter().enumerate() {
        match *ev {
            Ev::Pull(k) => {
                if ended {
                    return Err(format!("event {i}: byte {k} pulled after the source had returned None"));
                }
                if k != pulled {
                    return Err(format!("event {i}: byte {k} pulled, expected byte {pulled} (not strictly left to right, once)"));
                }
                pulled += 1;
            }
            Ev::End => {
                if pulled != hay_len {
                    return Err(format!("event {i}: source exhausted after {pulled} of {hay_len} bytes"));
                }
                ended = true;
            }
            Ev::Refill(k) => {
                if k != pulled {
                    return Err(format!("event {i}: refill requested for byte {k} while {pulled} bytes were pulled"));
                }
            }
            Ev::Ret(s, e) => {
                if done {
                    return Err(format!("event {i}: match returned after the iterator had returned None"));
                }
                if pulled != e {
                    return Err(format!(
                        "event {i}: match [{s},{e}) returned when {pulled} bytes had been pulled (must be exactly {e})"
                    ));
                }
            }
            Ev::Done => {
                if pulled != hay_len {
                    return Err(format!("event {i}: iterator finished after pulling {pulled} of {hay_len} bytes"));
                }
                if !ended {
                    return Err(format!("event {i}: iterator finished without the source reporting its end"));
                }
                done = true;
            }
            Ev::Inspect(n) => {
                if n != pulled {
                    return Err(format!("event {i}: inspection saw {n} pulled bytes, log says {pulled}"));
                }
            }
        }
    }
    if !done {
        return Err("history ends without the iterator returning None".into());
    }
    Ok(())
}

fn drive<V: Copy, I: Iterator<Item = daachorse::Match<V>>>(mut it: I, log: &Log, limit: usize, inspect: bool, extra_calls: usize) -> Vec<M<V>> {
    let mut out = Vec::new();
    loop {
        match it.next() {
            Some(m) => {
                log.borrow_mut().push(Ev::Ret(m.start(), m.end()));
                out.push((m.start(), m.end(), m.value()));
                if inspect {
                    let n = log.borrow().iter().filter(|e| matches!(e, Ev::Pull(_))).count();
                    log.borrow_mut().push(Ev::Inspect(n));
                }
                if out.len() > limit {
                    break;
                }
            }
            None => {
                log.borrow_mut().push(Ev::Done);
                break;
            }
        }
    }
    // the adapters are not fused: further calls may see the source's end again, but must neither
    // pull a byte nor produce a match
    for _ in 0..extra_calls {
        if let Some(m) = it.next() {
            log.borrow_mut().push(Ev::Ret(m.start(), m.end()));
        }
    }
    out
}

/// Runs one `*_from_iter` method over an instrumented source. Returns (matches, log).
pub fn run_logged<V: Copy>(p: &Pma<V>, m: Method, hay: &[u8], streaming_chunk: Option<usize>, inspect: bool, extra_calls: usize, limit: usize) -> (Vec<M<V>>, Vec<Ev>) {
    run_logged_hint(p, m, hay, streaming_chunk, inspect, extra_calls, limit, Hint::Unknown)
}

#[allow(clippy::too_many_arguments)]
pub fn run_logged_hint<V: Copy>(p: &Pma<V>, m: Method, hay: &[u8], streaming_chunk: Option<usize>, inspect: bool, extra_calls: usize, limit: usize, hint: Hint) -> (Vec<M<V>>, Vec<Ev>) {
    let log: Log = Rc::new(RefCell::new(Vec::new()));
    let src = Source::new(Rc::new(hay.to_vec()), log.clone(), streaming_chunk).with_hint(hint);
    daachorse::verif::set_step_budget(loose_budget(hay.len(), p.num_states()));
    let out = match p {
        Pma::B(a) => match m {
            Method::FindIter => drive(a.find_iter_from_iter(src), &log, limit, inspect, extra_calls),
            Method::OverlapIter => drive(a.find_overlapping_iter_from_iter(src), &log, limit, inspect, extra_calls),
            Method::NoSuffixIter => drive(a.find_overlapping_no_suffix_iter_from_iter(src), &log, limit, inspect, extra_calls),
            _ => panic!("harness: not a from_iter method"),
        },
        Pma::C(a) => unsafe {
            match m {
                Method::FindIter => drive(a.find_iter_from_iter(src), &log, limit, inspect, extra_calls),
                Method::OverlapIter => drive(a.find_overlapping_iter_from_iter(src), &log, limit, inspect, extra_calls),
                Method::NoSuffixIter => drive(a.find_overlapping_no_suffix_iter_from_iter(src), &log, limit, inspect, extra_calls),
                _ => panic!("harness: not a from_iter method"),
            }
        },
    };
    daachorse::verif::set_step_budget(None);
    let l = log.borrow().clone();
    (out, l)
}

pub fn slice_twin(m: Method) -> Method {
    match m {
        Method::FindIter => Method::Find,
        Method::OverlapIter => Method::Overlap,
        Method::NoSuffixIter => Method::NoSuffix,
        x => x,
    }
}

pub fn log_j(log: &[Ev], max: usize) -> J {
    let mut v: Vec<J> = log.iter().take(max).map(|e| J::Str(format!("{e:?}"))).collect();
    if log.len() > max {
        v.push(J::Str(format!("... {} more events", log.len() - max)));
    }
    J::Arr(v)
}

pub fn num_cases(ctx: &Ctx) -> u64 {
    match (ctx.mode, ctx.tier) {
        (Mode::Miri, _) => 24,
        (Mode::Asan | Mode::Tsan, _) => 1500,
        (Mode::Native, Tier::Quick) => 20_000,
        (Mode::Native, Tier::Thorough) => 800_000,
    }
}

pub fn run_case(ctx: &mut Ctx, idx: u64) {
    let mut rng = Rng::for_case(ctx.seed, "C12", idx);
    let variant = if rng.chance(1, 2) { Variant::Bytewise } else { Variant::Charwise };
    let case: Case = if ctx.slow() {
        gen::small_case(&mut rng, variant, MatchKind::Standard, true)
    } else if rng.below(60) == 0 {
        gen::large_case(&mut rng, variant, MatchKind::Standard, 1500)
    } else {
        gen::small_case(&mut rng, variant, MatchKind::Standard, false)
    };
    let spec = case.spec;
    if ctx.replay {
        println!("case {idx}: {}", case.to_json(200, 2000).to_string());
    }
    ctx.rep.evaluations += 1;
    let p = match build_case(&case, spec) {
        Ok(p) => p,
        Err(e) => {
            ctx.rep.count("build_failed_on_valid_input", 1);
            ctx.rep.note("build_errors", &format!("case {idx}: {e}"));
            return;
        }
    };
    ctx.rep.count("automata", 1);
    let ns = p.num_states();
    let mut nontrivial = false;
    for hay in &case.haystacks {
        for m in [Method::FindIter, Method::OverlapIter, Method::NoSuffixIter] {
            let exp = match p.try_search(slice_twin(m), hay, usize::MAX, loose_budget(hay.len(), ns)) {
                Ok(x) => x.0,
                Err(_) => {
                    ctx.rep.count("slice_search_panicked", 1); // not C12's statement
                    continue;
                }
            };
            let streaming = if rng.chance(1, 2) { Some(rng.range(1, 5)) } else { None };
            let inspect = rng.chance(1, 2);
            let extra = rng.usize_below(3);
            let hint = *rng.pick(&[Hint::Unknown, Hint::Exact, Hint::Exact, Hint::LowerBound]);
            ctx.rep.note("source_size_hints", &format!("{hint:?}"));
            let logged = std::panic::catch_unwind(std::panic::AssertUnwindSafe(|| run_logged_hint(&p, m, hay, streaming, inspect, extra, exp.len() + 1, hint)));
            daachorse::verif::set_step_budget(None);
            let (got, log) = match logged {
                Ok(x) => x,
                Err(_) => {
                    ctx.rep.violation(
                        "iter-vs-slice",
                        format!("{} panics where {} returns on the same haystack", m.name(), slice_twin(m).name()),
                        idx,
                        mismatch_detail(&case, &spec, hay, m, &[], &exp),
                    );
                    continue;
                }
            };
            ctx.rep.count("histories_checked", 1);
            ctx.rep.count("events_checked", log.len() as u64);
            if streaming.is_some() {
                ctx.rep.count("streaming_histories", 1);
            }
            if got != exp {
                ctx.rep.violation(
                    "iter-vs-slice",
                    format!("{} returns different matches than {} on the same haystack", m.name(), slice_twin(m).name()),
                    idx,
                    mismatch_detail(&case, &spec, hay, m, &got, &exp),
                );
                continue;
            }
            if let Err(e) = check_log(&log, hay.len()) {
                ctx.rep.violation(
                    "event-log",
                    format!("{}: {e}", m.name()),
                    idx,
                    J::obj()
                        .set("spec", Case::spec_j(&spec))
                        .set("method", J::s(m.name()))
                        .set("haystack", bytes_j(hay))
                        .set("streaming_chunk", streaming.map_or(J::Null, J::us))
                        .set("source_size_hint", J::Str(format!("{hint:?}")))
                        .set("matches", crate::case::matches_j(&got, 12))
                        .set("event_log", log_j(&log, 80))
                        .set("case", case.to_json(40, 200)),
                );
            }
            if exp.len() >= 2 && exp[0].1 < hay.len() {
                nontrivial = true;
            }
        }
    }
    if nontrivial {
        ctx.rep.nontrivial.insert(case.digest());
        ctx.rep.sample(|| {
            let hay = case.haystacks.iter().find(|h| !h.is_empty()).cloned().unwrap_or_default();
            let (_, log) = run_logged(&p, Method::FindIter, &hay, Some(2), true, 1, usize::MAX);
            J::obj().set("case", case.to_json(8, 100)).set("history_find_iter_from_iter_on_first_haystack", log_j(&log, 40))
        });
    }
    ctx.rep.note("workloads", case.workload);
}
