//! C06 (values and extents of every reported match) and C09 (serialisation round trip), over
//! every supported value type: u8..u128, i8..i128, usize, isize, Empty, and two user-defined
//! fixed-width `Serializable` types (3 and 9 bytes).

use crate::case::Case;
use crate::common::*;
use crate::gen;
use crate::json::{bytes_j, J};
use crate::pma::{kind_name, Entry, Method, Pma, Spec, Variant};
use crate::rng::Rng;
use daachorse::{Empty, Serializable};
use std::collections::HashMap;
use std::fmt::Debug;

/// Value types the monitors are instantiated with.
pub trait Val: Copy + Debug + Serializable + TryFrom<usize> + 'static {
    const NAME: &'static str;
    /// Deterministic value from a seed; seeds 0,1,2 (mod 8) give zero, MIN and MAX of the type.
    fn from_seed(x: u64) -> Self;
    fn same(&self, other: &Self) -> bool;
    /// `==` on automata where the value type supports it.
    fn pma_equal(a: &Pma<Self>, b: &Pma<Self>) -> Option<bool>;
    /// largest index that still converts (for `build(patterns)`), if small enough to exercise
    const MAX_INDEX: Option<usize>;
}

macro_rules! int_val {
    ($t:ty, $name:expr, $maxidx:expr) => {
        impl Val for $t {
            const NAME: &'static str = $name;
            fn from_seed(x: u64) -> Self {
                match x % 8 {
                    0 => 0,
                    1 => <$t>::MIN,
                    2 => <$t>::MAX,
                    3 => 1,
                    _ => {
                        let lo = (x >> 3) as u128;
                        let wide = lo | (lo.wrapping_mul(0x9E37_79B9_7F4A_7C15_F39C_C060_5CED_C835) << 64);
                        wide as $t
                    }
                }
            }
            fn same(&self, other: &Self) -> bool {
                self == other
            }
            fn pma_equal(a: &Pma<Self>, b: &Pma<Self>) -> Option<bool> {
                Some(a.same(b))
            }
            const MAX_INDEX: Option<usize> = $maxidx;
        }
    };
}

int_val!(u8, "u8", Some(255));
int_val!(u16, "u16", Some(65535));
int_val!(u32, "u32", None);
int_val!(u64, "u64", None);
int_val!(u128, "u128", None);
int_val!(usize, "usize", None);
int_val!(i8, "i8", Some(127));
int_val!(i16, "i16", Some(32767));
int_val!(i32, "i32", None);
int_val!(i64, "i64", None);
int_val!(i128, "i128", None);
int_val!(isize, "isize", None);

impl Val for Empty {
    const NAME: &'static str = "Empty";
    fn from_seed(_: u64) -> Self {
        Empty
    }
    fn same(&self, _: &Self) -> bool {
        true
    }
    fn pma_equal(_: &Pma<Self>, _: &Pma<Self>) -> Option<bool> {
        None // Empty implements neither PartialEq nor Eq
    }
    const MAX_INDEX: Option<usize> = None;
}

/// User-defined 3-byte value.
#[derive(Clone, Copy, Debug, PartialEq, Eq, Hash)]
pub struct Tri(pub [u8; 3]);

impl Serializable for Tri {
    fn serialize_to_vec(&self, dst: &mut Vec<u8>) {
        dst.extend_from_slice(&self.0);
    }
    fn deserialize_from_slice(src: &[u8]) -> (Self, &[u8]) {
        (Tri([src[0], src[1], src[2]]), &src[3..])
    }
    fn serialized_bytes() -> usize {
        3
    }
}
impl TryFrom<usize> for Tri {
    type Error = ();
    fn try_from(x: usize) -> Result<Self, ()> {
        if x < (1 << 24) {
            Ok(Tri([x as u8, (x >> 8) as u8, (x >> 16) as u8]))
        } else {
            Err(())
        }
    }
}
impl Val for Tri {
    const NAME: &'static str = "user-defined 3-byte struct";
    fn from_seed(x: u64) -> Self {
        match x % 8 {
            0 => Tri([0; 3]),
            2 => Tri([0xFF; 3]),
            _ => Tri([(x >> 3) as u8, (x >> 11) as u8, (x >> 19) as u8]),
        }
    }
    fn same(&self, o: &Self) -> bool {
        self == o
    }
    fn pma_equal(a: &Pma<Self>, b: &Pma<Self>) -> Option<bool> {
        Some(a.same(b))
    }
    const MAX_INDEX: Option<usize> = None;
}

/// User-defined 9-byte value with a field order that differs from its declaration order when
/// serialised (tag first).
#[derive(Clone, Copy, Debug, PartialEq, Eq, Hash)]
pub struct Nine {
    pub id: u64,
    pub tag: i8,
}

impl Serializable for Nine {
    fn serialize_to_vec(&self, dst: &mut Vec<u8>) {
        dst.push(self.tag as u8);
        dst.extend_from_slice(&self.id.to_be_bytes());
    }
    fn deserialize_from_slice(src: &[u8]) -> (Self, &[u8]) {
        let tag = src[0] as i8;
        let id = u64::from_be_bytes(src[1..9].try_into().unwrap());
        (Nine { id, tag }, &src[9..])
    }
    fn serialized_bytes() -> usize {
        9
    }
}
impl TryFrom<usize> for Nine {
    type Error = ();
    fn try_from(x: usize) -> Result<Self, ()> {
        Ok(Nine { id: x as u64, tag: (x % 7) as i8 - 3 })
    }
}
impl Val for Nine {
    const NAME: &'static str = "user-defined 9-byte struct";
    fn from_seed(x: u64) -> Self {
        match x % 8 {
            0 => Nine { id: 0, tag: 0 },
            1 => Nine { id: 0, tag: i8::MIN },
            2 => Nine { id: u64::MAX, tag: i8::MAX },
            _ => Nine { id: x.wrapping_mul(0x9E37_79B9_7F4A_7C15), tag: (x >> 5) as i8 },
        }
    }
    fn same(&self, o: &Self) -> bool {
        self == o
    }
    fn pma_equal(a: &Pma<Self>, b: &Pma<Self>) -> Option<bool> {
        Some(a.same(b))
    }
    const MAX_INDEX: Option<usize> = None;
}

pub const NUM_TYPES: u64 = 15;

// ------------------------------------------------------------------------------------------------

fn typed_values<V: Val>(rng: &mut Rng, n: usize, entry: Entry) -> Vec<V> {
    match entry {
        Entry::New => (0..n)
            .map(|i| V::try_from(i).unwrap_or_else(|_| panic!("harness: index {i} does not convert to {}", V::NAME)))
            .collect(),
        Entry::WithValues => match rng.below(4) {
            0 => {
                let s = rng.below(3);
                (0..n).map(|_| V::from_seed(s)).collect() // all equal: zero / MIN / MAX
            }
            1 => (0..n).map(|_| V::from_seed(rng.below(3))).collect(), // extremes with repeats
            2 => (0..n).map(|_| V::from_seed(8 * rng.below(3) + 4)).collect(), // few values, shared
            _ => (0..n).map(|_| V::from_seed(rng.next_u64())).collect(),
        },
    }
}

fn mj<V: Val>(ms: &[(usize, usize, V)], max: usize) -> J {
    J::arr(ms.iter().take(max).map(|(s, e, v)| J::arr([J::us(*s), J::us(*e), J::Str(format!("{v:?}"))])))
}

fn typed_detail<V: Val>(case: &Case, spec: &Spec, vals: &[V], extra: J) -> J {
    J::obj()
        .set("value_type", J::s(V::NAME))
        .set("spec", Case::spec_j(spec))
        .set("patterns", J::arr(case.patterns.iter().take(40).map(|p| bytes_j(p))))
        .set("values", J::arr(vals.iter().take(40).map(|v| J::Str(format!("{v:?}")))))
        .set("detail", extra)
}

/// C06 monitor: every match of every method is a true occurrence of a registered pattern with
/// exactly the registered value and sane extents. Independent of the sequence models.
fn per_match_monitor<V: Val>(
    ctx: &mut Ctx,
    idx: u64,
    case: &Case,
    spec: &Spec,
    p: &Pma<V>,
    vals: &[V],
    stage: &str,
) -> u64 {
    let mut index: HashMap<&[u8], usize> = HashMap::new();
    for (i, pat) in case.patterns.iter().enumerate() {
        index.entry(pat.as_slice()).or_insert(i);
    }
    let ns = p.num_states();
    let mut seen = 0u64;
    for hay in &case.haystacks {
        for &m in Method::for_kind(spec.kind) {
            let (got, _) = p.search(m, hay, 4 * hay.len() * 4 + 16, loose_budget(hay.len(), ns));
            for (k, &(s, e, v)) in got.iter().enumerate() {
                seen += 1;
                let problem = if !(s < e && e <= hay.len()) {
                    Some(format!("extent violates 0 <= start < end <= len: start={s} end={e} len={}", hay.len()))
                } else {
                    match index.get(&hay[s..e]) {
                        None => Some(format!("haystack[{s}..{e}] is not a registered pattern")),
                        Some(&i) => {
                            if v.same(&vals[i]) {
                                None
                            } else {
                                Some(format!(
                                    "value {:?} reported for pattern #{i}, registered value is {:?}",
                                    v, vals[i]
                                ))
                            }
                        }
                    }
                };
                if let Some(msg) = problem {
                    ctx.rep.violation(
                        "per-match",
                        format!("{} [{}; {}; {}; V={}]: {msg}", m.name(), stage, kind_name(spec.kind), if spec.variant == Variant::Bytewise { "byte-wise" } else { "char-wise" }, V::NAME),
                        idx,
                        typed_detail(
                            case,
                            spec,
                            vals,
                            J::obj()
                                .set("haystack", bytes_j(hay))
                                .set("match_index", J::us(k))
                                .set("matches", mj(&got, 20)),
                        ),
                    );
                    return seen;
                }
            }
        }
    }
    seen
}

/// C09 monitor.
fn roundtrip_monitor<V: Val>(
    ctx: &mut Ctx,
    idx: u64,
    case: &Case,
    spec: &Spec,
    p: &Pma<V>,
    vals: &[V],
    trailing: &[u8],
) -> Option<Pma<V>> {
    let bytes = p.serialize();
    // the image may sit anywhere in the caller's buffer: behind a header of any length (so at any
    // alignment), and in front of trailing bytes
    let lead = (bytes.len() + trailing.len()) % 9 % 8; // 0..=7, deterministic per case
    let mut whole: Vec<u8> = vec![0xEE; lead];
    whole.extend_from_slice(&bytes);
    whole.extend_from_slice(trailing);
    let buf = &whole[lead..];
    let (q, rest) = unsafe { Pma::<V>::deserialize(spec.variant, buf) };
    ctx.rep.count("round_trips", 1);
    ctx.rep.count(&format!("round_trips_at_buffer_offset_{lead}"), 1);
    ctx.rep.count("serialized_bytes_total", bytes.len() as u64);
    let mut problems: Vec<String> = Vec::new();
    if rest.len() != trailing.len() || rest != trailing {
        problems.push(format!(
            "remainder is not the trailing bytes: {} bytes returned, {} appended",
            rest.len(),
            trailing.len()
        ));
    } else if rest.as_ptr() as usize != buf.as_ptr() as usize + bytes.len() {
        problems.push("remainder does not start right after the serialised automaton".into());
    }
    if let Some(false) = V::pma_equal(p, &q) {
        problems.push(format!("restored automaton != original (PartialEq) [image placed at offset {lead} of the buffer]"));
    }
    // two images back to back: the remainder of the first call is the input of the second
    if problems.is_empty() && bytes.len() < 200_000 {
        let mut two = bytes.clone();
        two.extend_from_slice(&bytes);
        two.extend_from_slice(trailing);
        let (q1, r1) = unsafe { Pma::<V>::deserialize(spec.variant, &two) };
        if r1.len() != bytes.len() + trailing.len() {
            problems.push("two images back to back: the first call did not consume exactly one image".into());
        } else {
            let (q2, r2) = unsafe { Pma::<V>::deserialize(spec.variant, r1) };
            ctx.rep.count("back_to_back_round_trips", 1);
            if r2 != trailing {
                problems.push("two images back to back: the second call did not hand back the trailing bytes".into());
            }
            if let (Some(false), _) | (_, Some(false)) = (V::pma_equal(p, &q1), V::pma_equal(p, &q2)) {
                problems.push("two images back to back: a restored automaton != original".into());
            }
            if q2.serialize() != bytes {
                problems.push("two images back to back: the second restored automaton re-serialises to different bytes".into());
            }
        }
    }
    let again = q.serialize();
    if again != bytes {
        let d = first_diff(&again, &bytes);
        problems.push(format!(
            "re-serialising the restored automaton gives different bytes (lengths {} vs {}, first difference at offset {d})",
            again.len(),
            bytes.len()
        ));
    }
    if q.kind() != p.kind() {
        problems.push(format!("match kind changed: {} -> {}", kind_name(p.kind()), kind_name(q.kind())));
    }
    if q.num_states() != p.num_states() {
        problems.push(format!("num_states() changed: {} -> {}", p.num_states(), q.num_states()));
    }
    if problems.is_empty() {
        // behaviour (only meaningful if the kind survived; otherwise the calls would panic)
        let ns = p.num_states();
        'outer: for hay in &case.haystacks {
            for &m in Method::for_kind(spec.kind) {
                let (a, _) = p.search(m, hay, usize::MAX, loose_budget(hay.len(), ns));
                let (b, _) = q.search(m, hay, a.len() + 1, loose_budget(hay.len(), ns));
                ctx.rep.count("searches_compared_after_round_trip", 1);
                let eq = a.len() == b.len() && a.iter().zip(b.iter()).all(|(x, y)| x.0 == y.0 && x.1 == y.1 && x.2.same(&y.2));
                if !eq {
                    problems.push(format!(
                        "{} answers differently after the round trip on haystack {:?}: before {:?} after {:?}",
                        m.name(),
                        String::from_utf8_lossy(hay),
                        &a[..a.len().min(6)],
                        &b[..b.len().min(6)]
                    ));
                    break 'outer;
                }
            }
        }
    }
    if !problems.is_empty() {
        ctx.rep.violation(
            "round-trip",
            format!(
                "serialize/deserialize_unchecked round trip [{}; {}; V={}]: {}",
                if spec.variant == Variant::Bytewise { "byte-wise" } else { "char-wise" },
                kind_name(spec.kind),
                V::NAME,
                problems[0]
            ),
            idx,
            typed_detail(
                case,
                spec,
                vals,
                J::obj()
                    .set("problems", J::arr(problems.iter().map(|s| J::s(s))))
                    .set("trailing_bytes", bytes_j(trailing))
                    .set("serialized_len", J::us(bytes.len())),
            ),
        );
        return None;
    }
    Some(q)
}

fn trailing_bytes(rng: &mut Rng) -> Vec<u8> {
    match rng.below(5) {
        0 => Vec::new(),
        1 => vec![0u8; rng.range(1, 9)],
        2 => vec![0xFF; rng.range(1, 9)],
        3 => {
            // looks like another length-prefixed vector
            let mut v = (rng.below(5) as u32).to_le_bytes().to_vec();
            v.extend((0..rng.range(0, 12)).map(|_| rng.below(256) as u8));
            v
        }
        _ => (0..rng.range(1, 40)).map(|_| rng.below(256) as u8).collect(),
    }
}

#[derive(Clone, Copy, PartialEq, Eq)]
pub enum Which {
    C06,
    C09,
}

fn typed_run<V: Val>(ctx: &mut Ctx, which: Which, idx: u64, rng: &mut Rng, mut case: Case) {
    // boundary: the last index that still converts (u8: 256 patterns, i8: 128 patterns)
    if case.spec.entry == Entry::New {
        if let Some(maxi) = V::MAX_INDEX.filter(|&m| m <= 255) {
            if which == Which::C06 && rng.chance(1, 3) && !ctx.slow() {
                let need = maxi + 1;
                let mut k = 0u32;
                while case.patterns.len() < need {
                    let extra = format!("~{k}~").into_bytes();
                    if !case.patterns.contains(&extra) {
                        case.patterns.push(extra);
                    }
                    k += 1;
                }
                case.patterns.truncate(need);
                let last = case.patterns[need - 1].clone();
                case.haystacks.push(last);
                ctx.rep.count("cases_at_last_convertible_index", 1);
            } else if case.patterns.len() > maxi + 1 {
                case.patterns.truncate(maxi + 1);
            }
        }
    }
    if case.spec.entry == Entry::New && V::MAX_INDEX.map_or(false, |m| case.patterns.len() > m + 1) {
        // more patterns than the type can index: use explicit values instead
        case.spec.entry = Entry::WithValues;
    }
    let spec = case.spec;
    let vals: Vec<V> = typed_values::<V>(rng, case.patterns.len(), spec.entry);
    case.values = (0..case.patterns.len() as u32).collect();
    ctx.rep.evaluations += 1;
    ctx.rep.note("value_types", V::NAME);
    if ctx.replay {
        println!("case {idx}: V={} {}", V::NAME, case.to_json(300, 2000).to_string());
        println!("values: {:?}", &vals[..vals.len().min(50)]);
    }
    let p: Pma<V> = match build_guarded(spec, &case.patterns, &vals) {
        Ok(p) => p,
        Err(e) => {
            ctx.rep.count("build_failed_on_valid_input", 1);
            ctx.rep.note("build_errors", &format!("case {idx}: {e}"));
            return;
        }
    };
    ctx.rep.count("automata", 1);
    let trailing = trailing_bytes(rng);
    match which {
        Which::C06 => {
            let n = per_match_monitor(ctx, idx, &case, &spec, &p, &vals, "fresh");
            ctx.rep.count("matches_checked", n);
            // after a serialisation round trip
            let bytes = p.serialize();
            let (q, _) = unsafe { Pma::<V>::deserialize(spec.variant, &bytes) };
            if q.kind() == p.kind() {
                let n = per_match_monitor(ctx, idx, &case, &spec, &q, &vals, "after serialize/deserialize");
                ctx.rep.count("matches_checked_after_round_trip", n);
            } else {
                ctx.rep.violation(
                    "per-match",
                    "match kind changed by the serialisation round trip, searches cannot be repeated".into(),
                    idx,
                    typed_detail(&case, &spec, &vals, J::Null),
                );
            }
            let shared = {
                let mut any = false;
                for i in 0..vals.len() {
                    for j in 0..i {
                        if vals[i].same(&vals[j]) {
                            any = true;
                        }
                    }
                    if any {
                        break;
                    }
                }
                any
            };
            let extreme = vals.iter().any(|v| v.same(&V::from_seed(0)) || v.same(&V::from_seed(1)) || v.same(&V::from_seed(2)));
            if shared {
                ctx.rep.count("cases_with_shared_values", 1);
            }
            if extreme {
                ctx.rep.count("cases_with_zero_min_or_max_value", 1);
            }
            if (shared || extreme || V::NAME != "u32") && n > 0 {
                ctx.rep.nontrivial.insert(case.digest() ^ crate::rng::fnv(V::NAME.as_bytes()));
                ctx.rep.sample(|| {
                    J::obj()
                        .set("value_type", J::s(V::NAME))
                        .set("values", J::arr(vals.iter().take(8).map(|v| J::Str(format!("{v:?}")))))
                        .set("case", case.to_json(8, 100))
                });
            }
        }
        Which::C09 => {
            let q = roundtrip_monitor(ctx, idx, &case, &spec, &p, &vals, &trailing);
            if q.is_some() {
                // second generation: restored automaton round-trips too
                if rng.chance(1, 4) {
                    let q = q.unwrap();
                    let _ = roundtrip_monitor(ctx, idx, &case, &spec, &q, &vals, &[]);
                }
            }
            if !trailing.is_empty() {
                ctx.rep.count("round_trips_with_trailing_bytes", 1);
            }
            if spec.kind != daachorse::MatchKind::Standard || V::NAME != "u32" || !trailing.is_empty() {
                ctx.rep.nontrivial.insert(case.digest() ^ crate::rng::fnv(V::NAME.as_bytes()) ^ crate::rng::fnv(&trailing));
                ctx.rep.sample(|| {
                    J::obj()
                        .set("value_type", J::s(V::NAME))
                        .set("trailing_bytes", bytes_j(&trailing))
                        .set("case", case.to_json(8, 100))
                });
            }
        }
    }
    ctx.rep.note("kinds", kind_name(spec.kind));
    ctx.rep.note("workloads", case.workload);
}

pub fn num_cases(ctx: &Ctx) -> u64 {
    match (ctx.mode, ctx.tier) {
        (Mode::Miri, _) => 30,
        (Mode::Asan | Mode::Tsan, _) => 1500,
        (Mode::Native, Tier::Quick) => 45_000,
        (Mode::Native, Tier::Thorough) => 600_000,
    }
}

pub fn run_case(ctx: &mut Ctx, which: Which, idx: u64) {
    let stream = if which == Which::C06 { "C06" } else { "C09" };
    let mut rng = Rng::for_case(ctx.seed, stream, idx);
    let variant = if rng.chance(1, 2) { Variant::Bytewise } else { Variant::Charwise };
    let kind = gen::any_kind(&mut rng);
    let case = if ctx.slow() {
        gen::small_case(&mut rng, variant, kind, true)
    } else if rng.below(40) == 0 {
        gen::large_case(&mut rng, variant, kind, if ctx.tier == Tier::Thorough { 6000 } else { 1500 })
    } else if ctx.mode == Mode::Native && rng.below(2500) == 0 {
        gen::many_patterns_case(&mut rng, variant, kind) // output positions beyond 16 bits
    } else {
        gen::small_case(&mut rng, variant, kind, false)
    };
    let r = &mut rng;
    match idx % NUM_TYPES {
        0 => typed_run::<u32>(ctx, which, idx, r, case),
        1 => typed_run::<u8>(ctx, which, idx, r, case),
        2 => typed_run::<u16>(ctx, which, idx, r, case),
        3 => typed_run::<u64>(ctx, which, idx, r, case),
        4 => typed_run::<u128>(ctx, which, idx, r, case),
        5 => typed_run::<usize>(ctx, which, idx, r, case),
        6 => typed_run::<i8>(ctx, which, idx, r, case),
        7 => typed_run::<i16>(ctx, which, idx, r, case),
        8 => typed_run::<i32>(ctx, which, idx, r, case),
        9 => typed_run::<i64>(ctx, which, idx, r, case),
        10 => typed_run::<i128>(ctx, which, idx, r, case),
        11 => typed_run::<isize>(ctx, which, idx, r, case),
        12 => typed_run::<Empty>(ctx, which, idx, r, case),
        13 => typed_run::<Tri>(ctx, which, idx, r, case),
        _ => typed_run::<Nine>(ctx, which, idx, r, case),
    }
}
