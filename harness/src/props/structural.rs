//! C07 (memory safety of searches: closure monitor + sanitizer-observed executions),
//! C13 (termination: ranking monitor; linear time: step trace),
//! C15 (truthful statistics: state-count oracle, reachability, size lower bounds).

use crate::case::Case;
use crate::common::*;
use crate::gen;
use crate::json::{bytes_j, J};
use crate::oracle;
use crate::pma::{kind_name, Entry, Method, Pma, Variant};
use crate::props::typed::Val;
use crate::props::evlog;
use crate::rng::Rng;
use daachorse::MatchKind;

#[derive(Clone, Copy, PartialEq, Eq)]
pub enum Which {
    C07,
    C13,
    C15,
}

pub fn num_cases(ctx: &Ctx, which: Which) -> u64 {
    match (ctx.mode, ctx.tier) {
        (Mode::Miri, _) => match which {
            Which::C07 => 48,
            _ => 16,
        },
        (Mode::Asan | Mode::Tsan, Tier::Quick) => 1200,
        (Mode::Asan | Mode::Tsan, Tier::Thorough) => 12_000,
        (Mode::Native, Tier::Quick) => match which {
            Which::C07 => 12_000,
            Which::C13 => 40_000,
            Which::C15 => 30_000,
        },
        (Mode::Native, Tier::Thorough) => match which {
            Which::C07 => 150_000,
            _ => 400_000,
        },
    }
}

fn gen_case(ctx: &Ctx, rng: &mut Rng, which: Which) -> Case {
    let variant = if rng.chance(1, 2) { Variant::Bytewise } else { Variant::Charwise };
    let kind = if which == Which::C13 && rng.chance(1, 2) { MatchKind::Standard } else { gen::any_kind(rng) };
    if ctx.slow() {
        return gen::small_case(rng, variant, kind, true);
    }
    let r = rng.below(40);
    if r < 3 {
        let cap = match (ctx.mode, ctx.tier) {
            (Mode::Native, Tier::Thorough) => 12_000,
            (Mode::Native, Tier::Quick) => 2500,
            _ => 1200,
        };
        gen::large_case(rng, variant, kind, cap)
    } else if which == Which::C13 && r < 12 {
        gen::adversarial_case(rng, variant)
    } else {
        gen::small_case(rng, variant, kind, false)
    }
}

/// Hostile haystacks for the memory-safety observers: every symbol of the automaton after every
/// pattern prefix would be the closure monitor's job; here we add sweeps that the stitched
/// haystacks do not contain (all bytes / boundary code points, symbol right at the end, etc.).
fn hostile_haystacks(rng: &mut Rng, case: &Case, miri: bool) -> Vec<Vec<u8>> {
    let mut v = Vec::new();
    if case.utf8 {
        let mut s = String::new();
        let n = if miri { 2 } else { 4 };
        for p in case.patterns.iter().take(n) {
            let ps = std::str::from_utf8(p).unwrap();
            for c in ['\u{0}', '\u{7f}', '\u{80}', '\u{7ff}', '\u{800}', '\u{ffff}', '\u{10000}', '\u{10ffff}'] {
                // pattern minus its last char, then a boundary code point
                let cut = ps.char_indices().last().map_or(0, |(i, _)| i);
                s.push_str(&ps[..cut]);
                s.push(c);
                s.push_str(ps);
            }
        }
        v.push(s.into_bytes());
        // ends in the middle of a potential match / with a multi-byte char
        if let Some(p) = case.patterns.first() {
            let ps = std::str::from_utf8(p).unwrap();
            let cut = ps.char_indices().last().map_or(0, |(i, _)| i);
            let mut t = String::from("\u{10ffff}");
            t.push_str(&ps[..cut]);
            v.push(t.into_bytes());
            let mut t = String::from(ps);
            t.push('😀');
            v.push(t.into_bytes());
        }
    } else {
        let mut h: Vec<u8> = Vec::new();
        let n = if miri { 1 } else { 3 };
        for p in case.patterns.iter().take(n) {
            for b in 0u32..256 {
                h.extend_from_slice(&p[..p.len() - 1]);
                h.push(b as u8);
            }
        }
        v.push(h);
        let mut h: Vec<u8> = (0u32..256).map(|b| b as u8).collect();
        rng.shuffle(&mut h);
        v.push(h);
    }
    v
}

pub fn run_case(ctx: &mut Ctx, which: Which, idx: u64) {
    let stream = match which {
        Which::C07 => "C07",
        Which::C13 => "C13",
        Which::C15 => "C15",
    };
    let mut rng = Rng::for_case(ctx.seed, stream, idx);
    let mut case = gen_case(ctx, &mut rng, which);
    let spec = case.spec;
    if which == Which::C07 {
        let extra = hostile_haystacks(&mut rng, &case, ctx.slow());
        case.haystacks.extend(extra);
    }
    if ctx.replay {
        println!("case {idx}: {}", case.to_json(200, 2000).to_string());
    }
    ctx.rep.evaluations += 1;
    ctx.rep.note("kinds", kind_name(spec.kind));
    ctx.rep.note("workloads", case.workload);
    if which == Which::C07 {
        // value types of different in-memory / serialised widths (the output table is indexed
        // unchecked too, and its restored length depends on the value width)
        match idx % 8 {
            0 => c07_typed::<u8>(ctx, idx, case, &mut rng),
            1 => c07_typed::<u16>(ctx, idx, case, &mut rng),
            2 => c07_typed::<u128>(ctx, idx, case, &mut rng),
            3 => c07_typed::<i16>(ctx, idx, case, &mut rng),
            4 => c07_typed::<crate::props::typed::Tri>(ctx, idx, case, &mut rng),
            _ => c07_typed::<u32>(ctx, idx, case, &mut rng),
        }
        return;
    }
    let p = match build_case(&case, spec) {
        Ok(p) => p,
        Err(e) => {
            ctx.rep.count("build_failed_on_valid_input", 1);
            ctx.rep.note("build_errors", &format!("case {idx}: {e}"));
            return;
        }
    };
    let (blocks, _) = layout_stats(&mut ctx.rep, &p, &spec);

    match which {
        Which::C07 => unreachable!(),
        Which::C13 => c13(ctx, idx, &case, &p),
        Which::C15 => c15(ctx, idx, &case, &p, blocks),
    }
}

fn c07_typed<V: Val>(ctx: &mut Ctx, idx: u64, mut case: Case, rng: &mut Rng) {
    if case.spec.entry == Entry::New && V::MAX_INDEX.map_or(false, |m| case.patterns.len() > m + 1) {
        case.spec.entry = Entry::WithValues;
    }
    let spec = case.spec;
    let vals: Vec<V> = match spec.entry {
        Entry::New => (0..case.patterns.len()).map(|i| V::try_from(i).unwrap_or_else(|_| panic!("harness: index conversion"))).collect(),
        Entry::WithValues => (0..case.patterns.len()).map(|_| V::from_seed(rng.next_u64())).collect(),
    };
    ctx.rep.note("value_types", V::NAME);
    let p: Pma<V> = match build_guarded(spec, &case.patterns, &vals) {
        Ok(p) => p,
        Err(e) => {
            ctx.rep.count("build_failed_on_valid_input", 1);
            ctx.rep.note("build_errors", &format!("case {idx}: {e}"));
            return;
        }
    };
    let (blocks, _) = layout_stats(&mut ctx.rep, &p, &spec);
    c07(ctx, idx, &case, &p, blocks, rng);
}

// -------------------------------------------------------------------------------------------- C07

fn c07<V: Val>(ctx: &mut Ctx, idx: u64, case: &Case, p: &Pma<V>, blocks: usize, rng: &mut Rng) {
    let spec = case.spec;
    // restored twin
    let bytes = p.serialize();
    let (q, _) = unsafe { Pma::<V>::deserialize(spec.variant, &bytes) };
    let mut widths = std::collections::BTreeSet::new();
    for (stage, a) in [("fresh", p), ("restored from serialize() bytes", &q)] {
        // (1) closure monitor: for-all-haystacks argument for this automaton
        let sr = structure_untyped(ctx, a);
        structure_stats(&mut ctx.rep, &sr);
        ctx.rep.count("automata_closed", 1);
        if !sr.closure.is_empty() {
            ctx.rep.violation(
                "index-closure",
                format!("[{stage}] a search could index outside the automaton's tables: {}", sr.closure[0]),
                idx,
                struct_detail(case, &spec, &sr.closure),
            );
            // do NOT run the real searches on an automaton known to be unsafe
            continue;
        }
        if a.kind() != spec.kind {
            // restored automaton changed kind: the searches below would be the wrong ones (C09's business)
            ctx.rep.count("restored_kind_differs", 1);
            continue;
        }
        // (2) sanitizer-observed executions of every search method (std's precondition checks in
        //     the dbg build, ASan, Miri — whichever this binary was built with)
        let ns = a.num_states();
        for hay in &case.haystacks {
            if case.utf8 {
                for c in std::str::from_utf8(hay).unwrap().chars() {
                    widths.insert(c.len_utf8());
                }
            }
            for &m in Method::for_kind(spec.kind) {
                let (got, _) = a.search(m, hay, 16 * hay.len() + 16, loose_budget(hay.len(), ns));
                ctx.rep.count("searches_observed", 1);
                ctx.rep.count("matches_observed", got.len() as u64);
            }
            // haystack handed over by value in containers with inline / heap storage: the search
            // must read the haystack's own bytes wherever they live. Same bytes, same answer as the
            // borrowed slice — a difference means the search read memory that is not the haystack
            // (e.g. through a pointer cached before the container was moved); Miri and ASan also
            // observe these runs directly.
            {
                let mut cut = hay.len().min(crate::pma::INLINE_CAP);
                while cut > 0 && cut < hay.len() && (hay[cut] & 0xC0) == 0x80 {
                    cut -= 1;
                }
                let short = &hay[..cut];
                for &m in Method::for_kind(spec.kind) {
                    let base_m = evlog::slice_twin(m);
                    if base_m != m {
                        continue;
                    }
                    let (exp, _) = a.search(m, short, 16 * short.len() + 16, loose_budget(short.len(), ns));
                    let mut conts = vec![crate::pma::Container::Inline, crate::pma::Container::Heap];
                    if short.len() >= 16 && (!case.utf8 || (short[16.min(short.len() - 1)] & 0xC0) != 0x80 || short.len() == 16) {
                        conts.push(crate::pma::Container::Array16);
                    }
                    for c in conts {
                        let (h, e): (&[u8], Vec<_>) = if c == crate::pma::Container::Array16 && a.variant() == Variant::Bytewise {
                            let h16 = &short[..16];
                            (h16, a.search(m, h16, 16 * 16 + 16, loose_budget(16, ns)).0)
                        } else {
                            (short, exp.clone())
                        };
                        let got = a.search_in_container(m, h, c, 16 * h.len() + 16, loose_budget(h.len(), ns));
                        ctx.rep.count("by_value_container_searches", 1);
                        let same = got.len() == e.len() && got.iter().zip(e.iter()).all(|(x, y)| x.0 == y.0 && x.1 == y.1 && x.2.same(&y.2));
                        if !same {
                            ctx.rep.violation(
                                "haystack-container",
                                format!(
                                    "[{stage}] {} returns different matches for the same bytes passed by value in a {:?} container than passed as a borrowed slice: the search read memory that is not the haystack",
                                    m.name(),
                                    c
                                ),
                                idx,
                                J::obj()
                                    .set("haystack", bytes_j(h))
                                    .set("got_(start,end)", J::arr(got.iter().take(12).map(|x| J::arr([J::us(x.0), J::us(x.1)]))))
                                    .set("expected_(start,end)", J::arr(e.iter().take(12).map(|x| J::arr([J::us(x.0), J::us(x.1)]))))
                                    .set("case", case.to_json(40, 200)),
                            );
                            return;
                        }
                    }
                }
            }
            // a haystack type whose (safe) AsRef implementation is not pure: the string changes
            // between calls — shorter later on (stale resume offsets), or alternating between two
            // strings of different UTF-8 widths (the decoder sees a lead byte of one and the
            // continuation bytes of the other). Results are unspecified; memory safety is not.
            {
                let second_cut = {
                    let mut c = rng.usize_below(hay.len() + 1);
                    while c > 0 && c < hay.len() && (hay[c] & 0xC0) == 0x80 {
                        c -= 1;
                    }
                    c
                };
                let other: &[u8] = if case.utf8 { "\u{10ffff}é".as_bytes() } else { &[0xF4, 0x00] };
                for &m in Method::for_kind(spec.kind) {
                    if evlog::slice_twin(m) != m {
                        continue;
                    }
                    let lim = 4 * hay.len() + 8;
                    let b = loose_budget(4 * hay.len() + 16, ns);
                    a.search_hostile(m, hay, &hay[..second_cut], 1, false, lim, b);
                    a.search_hostile(m, hay, &hay[..second_cut], 1 + rng.usize_below(hay.len() + 1), false, lim, b);
                    a.search_hostile(m, hay, other, 0, true, lim, b);
                    a.search_hostile(m, other, hay, 0, true, lim, b);
                    ctx.rep.count("impure_asref_searches", 4);
                }
            }
            // the byte-iterator entry points (hand-written UTF-8 decoder with unwrap_unchecked) under
            // the same sanitizer observers
            if spec.kind == MatchKind::Standard {
                let m = *rng.pick(&[Method::FindIter, Method::OverlapIter, Method::NoSuffixIter]);
                let (got, _) = evlog::run_logged(a, m, hay, None, false, 1, usize::MAX);
                ctx.rep.count("from_iter_searches_observed", 1);
                ctx.rep.count("matches_observed", got.len() as u64);
            }
        }
    }
    let nontrivial = blocks >= 2 || widths.len() >= 2;
    if widths.len() >= 2 {
        ctx.rep.count("cases_with_several_utf8_widths", 1);
    }
    if nontrivial {
        ctx.rep.nontrivial.insert(case.digest());
        ctx.rep.sample(|| case.to_json(8, 100));
    }
}

// -------------------------------------------------------------------------------------------- C13

fn c13(ctx: &mut Ctx, idx: u64, case: &Case, p: &Pma<u32>) {
    let spec = case.spec;
    let sr = structure(ctx, p, None);
    structure_stats(&mut ctx.rep, &sr);
    ctx.rep.count("automata_ranked", 1);
    if !sr.ranking.is_empty() {
        ctx.rep.violation(
            "ranking",
            format!("fail links / output lists do not admit a ranking (a search may not terminate or is not linear): {}", sr.ranking[0]),
            idx,
            struct_detail(case, &spec, &sr.ranking),
        );
        return; // do not run searches that may not terminate
    }
    if !sr.closure.is_empty() {
        ctx.rep.count("closure_failed_skipped", 1);
        return;
    }
    let ns = p.num_states() as u64;
    let mut max_ratio: f64 = 0.0;
    for hay in &case.haystacks {
        let n = hay.len() as u64;
        if spec.kind == MatchKind::Standard {
            for m in [Method::Overlap, Method::NoSuffix, Method::Find, Method::OverlapIter, Method::FindIter, Method::NoSuffixIter] {
                // generous budget so that the measured number can be reported; verdict on 2n
                let (got, steps) = p.search(m, hay, usize::MAX, Some(8 * n + 64));
                ctx.rep.count("scans_traced", 1);
                ctx.rep.count("steps_observed", steps);
                ctx.rep.count("haystack_bytes_scanned", n);
                let ratio = if n == 0 { 0.0 } else { steps as f64 / n as f64 };
                if ratio > max_ratio {
                    max_ratio = ratio;
                }
                if steps > 2 * n {
                    ctx.rep.violation(
                        "step-trace",
                        format!(
                            "{} took {steps} automaton transitions on a haystack of {n} bytes (bound 2n = {}), {} matches",
                            m.name(),
                            2 * n,
                            got.len()
                        ),
                        idx,
                        J::obj().set("spec", Case::spec_j(&spec)).set("haystack", bytes_j(hay)).set("case", case.to_json(60, 300)),
                    );
                    return;
                }
            }
        } else {
            // pure termination bound per next() call, decided on logical steps
            let budget = (n + 1) * (ns + 1) * 2 + 64;
            let (got, steps) = p.search(Method::Leftmost, hay, hay.len() + 2, Some(budget));
            ctx.rep.count("leftmost_scans_traced", 1);
            ctx.rep.count("steps_observed", steps);
            let _ = got;
        }
    }
    // "every search call returns after finitely many steps": also the calls whose documented
    // outcome is a panic (search method that does not fit the automaton's match kind). A panic or
    // a normal return is finite; only exceeding the logical step budget is a refuting event.
    let wrong: &[Method] = if spec.kind == MatchKind::Standard { &[Method::Leftmost] } else { &Method::STANDARD };
    // (skipped under libFuzzer, whose panic hook aborts on the documented panic)
    let n_mis = if ctx.flavour == "fuzz" { 0 } else { 2 };
    for hay in case.haystacks.iter().filter(|h| !h.is_empty()).take(n_mis) {
        for &m in wrong {
            let n = hay.len() as u64;
            let budget = (n + 1) * (ns + 1) * 2 + 64;
            let r = std::panic::catch_unwind(std::panic::AssertUnwindSafe(|| p.search(m, hay, 4 * hay.len() + 8, Some(budget))));
            daachorse::verif::set_step_budget(None);
            ctx.rep.count("mismatched_kind_calls", 1);
            match r {
                Ok(_) => ctx.rep.count("mismatched_kind_calls_returned", 1),
                Err(e) => {
                    let msg = e.downcast_ref::<String>().cloned().or_else(|| e.downcast_ref::<&str>().map(|s| (*s).to_string())).unwrap_or_default();
                    if msg.contains(daachorse::verif::BUDGET_PANIC_MESSAGE) {
                        ctx.rep.violation(
                            "step-budget",
                            format!(
                                "{} called on a {} automaton neither panics nor returns: more than {budget} transitions on a haystack of {n} bytes",
                                m.name(),
                                kind_name(spec.kind)
                            ),
                            idx,
                            J::obj().set("spec", Case::spec_j(&spec)).set("haystack", bytes_j(hay)).set("case", case.to_json(60, 300)),
                        );
                        return;
                    }
                    ctx.rep.count("mismatched_kind_calls_panicked_as_documented", 1);
                }
            }
        }
    }
    ctx.rep.max("max_step_ratio", max_ratio);
    let nontrivial = max_ratio >= 1.5 || sr.max_fail_chain >= 3;
    if max_ratio >= 1.5 {
        ctx.rep.count("cases_with_step_ratio_ge_1.5", 1);
    }
    if nontrivial {
        ctx.rep.nontrivial.insert(case.digest());
        ctx.rep.sample(|| J::obj().set("max_step_ratio_in_case", J::Num(max_ratio)).set("max_fail_chain", J::us(sr.max_fail_chain)).set("case", case.to_json(8, 100)));
    }
}

// -------------------------------------------------------------------------------------------- C15

fn c15(ctx: &mut Ctx, idx: u64, case: &Case, p: &Pma<u32>, blocks: usize) {
    let spec = case.spec;
    let charwise = spec.variant == Variant::Charwise;
    let expected = oracle::expected_states(&case.patterns, spec.kind == MatchKind::LeftmostFirst, charwise);
    let reported = p.num_states();
    let trie = trie_for(case, &spec);
    let sr = structure(ctx, p, Some(&trie));
    structure_stats(&mut ctx.rep, &sr);
    let mut problems: Vec<String> = Vec::new();
    if reported != expected {
        problems.push(format!(
            "num_states() = {reported}, but 1 + number of distinct non-empty prefixes of the reportable patterns = {expected}"
        ));
    }
    if sr.closure.is_empty() && sr.reachable != reported {
        problems.push(format!(
            "num_states() = {reported}, but {} array slots are reachable from the root through the automaton's own child function",
            sr.reachable
        ));
    }
    for s in &sr.shape {
        problems.push(format!("reachable strings differ from the pattern prefixes: {s}"));
    }
    let heap = p.heap_bytes();
    if heap < 12 * reported {
        problems.push(format!("heap_bytes() = {heap} < 12 bytes x {reported} states"));
    }
    if let Pma::C(a) = p {
        let ne = a.num_elements();
        if ne < reported {
            problems.push(format!("num_elements() = {ne} < num_states() = {reported}"));
        }
        ctx.rep.count("charwise_num_elements_checked", 1);
    }
    ctx.rep.count("automata_counted", 1);
    if !problems.is_empty() {
        ctx.rep.violation(
            "statistics",
            problems[0].clone(),
            idx,
            struct_detail(case, &spec, &problems),
        );
    }
    let n_sh = if spec.kind == MatchKind::LeftmostFirst { oracle::shadowed(&case.patterns).iter().filter(|&&b| b).count() } else { 0 };
    if n_sh > 0 {
        ctx.rep.count("cases_with_shadowed_patterns", 1);
    }
    if n_sh > 0 || blocks >= 2 {
        ctx.rep.nontrivial.insert(case.digest());
        ctx.rep.sample(|| J::obj().set("num_states", J::us(reported)).set("heap_bytes", J::us(heap)).set("case", case.to_json(8, 60)));
    }
}
