//! C01 (overlapping), C02 (non-overlapping standard), C05 (overlapping without suffixes).

use crate::case::Case;
use crate::common::*;
use crate::gen;
use crate::pma::{Entry, Method, Spec, Variant};
use crate::rng::Rng;
use daachorse::MatchKind;

pub fn num_cases(ctx: &Ctx) -> u64 {
    match (ctx.mode, ctx.tier) {
        (Mode::Miri, _) => 24,
        (Mode::Asan | Mode::Tsan, _) => 1500,
        (Mode::Native, Tier::Quick) => 20_000,
        (Mode::Native, Tier::Thorough) => 300_000,
    }
}

/// Fixed regression corpus (documented examples).
pub fn corpus() -> Vec<Case> {
    let mk = |variant, pats: &[&str], hays: &[&str]| Case {
        spec: Spec { variant, kind: MatchKind::Standard, nfb: None, entry: Entry::New },
        patterns: pats.iter().map(|s| s.as_bytes().to_vec()).collect(),
        values: (0..pats.len() as u32).collect(),
        haystacks: hays.iter().map(|s| s.as_bytes().to_vec()).collect(),
        utf8: true,
        workload: "regression-corpus",
    };
    let mut v = Vec::new();
    for variant in [Variant::Bytewise, Variant::Charwise] {
        v.push(mk(variant, &["bcd", "ab", "a"], &["abcd", "", "a", "xabcdabcd"]));
        v.push(mk(variant, &["bcd", "cd", "abc"], &["abcd"]));
        v.push(mk(variant, &["全世界", "世界", "に"], &["全世界中に", "世界に全世界"]));
        v.push(mk(variant, &["a", "aa", "aaa", "aaaa"], &["aaaaaa"]));
        v.push(mk(variant, &["abcd", "bcd", "cd", "d", "bc"], &["abcdbcd", "xabcd"]));
        v.push(mk(variant, &["ab", "ba"], &["ababa", "bab"]));
    }
    v
}

fn gen_case(ctx: &Ctx, rng: &mut Rng, idx: u64) -> Case {
    let corp = corpus();
    if (idx as usize) < corp.len() {
        return corp[idx as usize].clone();
    }
    let variant = if rng.chance(1, 2) { Variant::Bytewise } else { Variant::Charwise };
    let kind = MatchKind::Standard;
    if ctx.slow() {
        return gen::small_case(rng, variant, kind, true);
    }
    match rng.below(40) {
        0..=2 => {
            let cap = match (ctx.mode, ctx.tier) {
                (Mode::Native, Tier::Thorough) => 12_000,
                (Mode::Native, Tier::Quick) => 2500,
                _ => 1200,
            };
            gen::large_case(rng, variant, kind, cap)
        }
        3 => gen::adversarial_case(rng, variant),
        // dense byte-wise layouts around exact block fills: cheap (a few hundred states), and the
        // table monitor inspects every transition of each of them
        4..=9 => gen::dense_random(rng, kind),
        _ => gen::small_case(rng, variant, kind, false),
    }
}

/// case index of the > 4 GiB haystack probe (thorough tier only)
pub const HUGE_STREAM_IDX: u64 = 13;

/// A haystack of more than 2^32 bytes, streamed through the byte-iterator entry points (nothing is
/// allocated): offsets beyond u32::MAX must be reported exactly. Expected matches are known
/// analytically: the filler byte occurs in no pattern.
fn huge_stream_probe(ctx: &mut Ctx, which: Which, idx: u64) {
    use daachorse::{CharwiseDoubleArrayAhoCorasick, DoubleArrayAhoCorasick};
    ctx.rep.evaluations += 1;
    ctx.rep.note("workloads", "W14-haystack-longer-than-4GiB");
    let pats = ["ab", "é", "b"];
    let tail: &[u8] = "xabéxbab".as_bytes();
    let fill: u64 = (1u64 << 32) + 3;
    let stream = || (0..fill).map(|_| b'x').chain(tail.iter().copied());
    let base = fill as usize;
    // occurrences in the tail "xabéxbab": ab@1..3, b@2..3, é@3..5, b@6..7, ab@7..9?  (tail = x a b é(2) x b a b)
    // indices: x0 a1 b2 é3-4 x5 b6 a7 b8
    let all: Vec<(usize, usize, u32)> = vec![(1, 3, 0), (2, 3, 2), (3, 5, 1), (6, 7, 2), (7, 9, 0), (8, 9, 2)];
    let shift = |v: &[(usize, usize, u32)]| -> Vec<(usize, usize, u32)> { v.iter().map(|&(s, e, x)| (s + base, e + base, x)).collect() };
    let overlap = shift(&all);
    let nosuffix = shift(&[(1, 3, 0), (3, 5, 1), (6, 7, 2), (7, 9, 0)]);
    let find = shift(&[(1, 3, 0), (3, 5, 1), (6, 7, 2), (7, 9, 0)]);
    let bw = DoubleArrayAhoCorasick::<u32>::new(pats).expect("harness: probe build");
    let cw = CharwiseDoubleArrayAhoCorasick::<u32>::new(pats).expect("harness: probe build");
    let mut runs: Vec<(String, Vec<(usize, usize, u32)>, Vec<(usize, usize, u32)>)> = Vec::new();
    let col = |it: &mut dyn Iterator<Item = daachorse::Match<u32>>| -> Vec<(usize, usize, u32)> { it.take(64).map(|m| (m.start(), m.end(), m.value())).collect() };
    match which {
        Which::C01 => {
            runs.push(("byte-wise find_overlapping_iter_from_iter".into(), col(&mut bw.find_overlapping_iter_from_iter(stream())), overlap.clone()));
            runs.push(("char-wise find_overlapping_iter_from_iter".into(), col(&mut unsafe { cw.find_overlapping_iter_from_iter(stream()) }), overlap.clone()));
        }
        Which::C02 => {
            runs.push(("byte-wise find_iter_from_iter".into(), col(&mut bw.find_iter_from_iter(stream())), find.clone()));
            runs.push(("char-wise find_iter_from_iter".into(), col(&mut unsafe { cw.find_iter_from_iter(stream()) }), find.clone()));
        }
        Which::C05 => {
            runs.push(("byte-wise find_overlapping_no_suffix_iter_from_iter".into(), col(&mut bw.find_overlapping_no_suffix_iter_from_iter(stream())), nosuffix.clone()));
            runs.push(("char-wise find_overlapping_no_suffix_iter_from_iter".into(), col(&mut unsafe { cw.find_overlapping_no_suffix_iter_from_iter(stream()) }), nosuffix.clone()));
        }
    }
    for (name, got, exp) in runs {
        ctx.rep.count("huge_stream_searches", 1);
        if got != exp {
            ctx.rep.violation(
                "reference-model",
                format!("{name} over a haystack of 2^32+11 bytes returned a different match sequence than expected"),
                idx,
                crate::json::J::obj()
                    .set("patterns", crate::json::J::s("ab, é, b"))
                    .set("haystack", crate::json::J::s("'x' repeated 2^32+3 times, then \"xabéxbab\""))
                    .set("got", crate::json::J::Str(format!("{got:?}")))
                    .set("expected", crate::json::J::Str(format!("{exp:?}"))),
            );
        }
    }
    ctx.rep.nontrivial.insert(0x11a1_7100 + which as u64);
}

/// case index of the documented-limit probe (byte-wise automaton with 2^24-1 patterns)
pub const LIMIT_PROBE_IDX: u64 = 12;

/// The byte-wise automaton documents a maximum of 2^24-1 patterns. Build exactly that many (all
/// 3-byte strings but one; ~1.5 GB, a few seconds) and compare the searches with the analytically
/// known answer (every 3-byte window except ff ff ff matches, value = its number). Also: if a
/// collection of 2^24 patterns is *accepted* (the documentation says it is rejected), the automaton
/// must still answer correctly.
fn limit_probe(ctx: &mut Ctx, which: Which, idx: u64) {
    use daachorse::DoubleArrayAhoCorasickBuilder;
    ctx.rep.evaluations += 1;
    ctx.rep.note("workloads", "W13-documented-limit-probe");
    for n in [(1usize << 24) - 1, 1usize << 24] {
        let it = (0..n as u32).map(|i| ([(i >> 16) as u8, (i >> 8) as u8, i as u8], i));
        let built = std::panic::catch_unwind(|| DoubleArrayAhoCorasickBuilder::new().build_with_values::<_, _, u32>(it));
        let p = match built {
            Ok(Ok(p)) => p,
            Ok(Err(e)) => {
                if n < (1 << 24) {
                    ctx.rep.count("build_failed_on_valid_input", 1);
                    ctx.rep.note("build_errors", &format!("limit probe, {n} patterns: {e}"));
                }
                continue;
            }
            Err(_) => {
                ctx.rep.count("build_failed_on_valid_input", 1);
                ctx.rep.note("build_errors", &format!("limit probe, {n} patterns: PANICKED"));
                continue;
            }
        };
        ctx.rep.count("limit_probe_automata", 1);
        let hay: Vec<u8> = vec![0, 0, 0, 1, 0x7f, 0xff, 0xff, 0xff, 0xff, 0xfe, 0xff, 0xff, 0xfd, 0xff, 0xff, 0xff];
        let win: Vec<(usize, usize, u32)> = (0..hay.len() - 2)
            .filter_map(|s| {
                let v = (u32::from(hay[s]) << 16) | (u32::from(hay[s + 1]) << 8) | u32::from(hay[s + 2]);
                if (v as usize) < n { Some((s, s + 3, v)) } else { None }
            })
            .collect();
        let mut nonover = Vec::new();
        let mut prev = 0;
        for &(s, e, v) in &win {
            if s >= prev {
                nonover.push((s, e, v));
                prev = e;
            }
        }
        let checks: Vec<(&str, Vec<(usize, usize, u32)>, Vec<(usize, usize, u32)>)> = match which {
            Which::C01 => vec![
                ("find_overlapping_iter", p.find_overlapping_iter(&hay).map(|m| (m.start(), m.end(), m.value())).collect(), win.clone()),
                ("find_overlapping_iter_from_iter", p.find_overlapping_iter_from_iter(hay.iter().copied()).map(|m| (m.start(), m.end(), m.value())).collect(), win.clone()),
            ],
            Which::C02 => vec![("find_iter", p.find_iter(&hay).map(|m| (m.start(), m.end(), m.value())).collect(), nonover.clone())],
            Which::C05 => vec![("find_overlapping_no_suffix_iter", p.find_overlapping_no_suffix_iter(&hay).map(|m| (m.start(), m.end(), m.value())).collect(), win.clone())],
        };
        for (name, got, exp) in checks {
            ctx.rep.count("matches_compared", exp.len() as u64);
            if got != exp {
                ctx.rep.violation(
                    "reference-model",
                    format!("{name} on the byte-wise automaton of {n} three-byte patterns returned a different match sequence than expected"),
                    idx,
                    crate::json::J::obj()
                        .set("patterns", crate::json::J::s("all 3-byte strings i.to_be_bytes()[1..] for i in 0..n, value i"))
                        .set("n", crate::json::J::us(n))
                        .set("haystack", crate::json::bytes_j(&hay))
                        .set("got", crate::case::matches_j(&got, 20))
                        .set("expected", crate::case::matches_j(&exp, 20)),
                );
            }
        }
    }
    ctx.rep.nontrivial.insert(0x11a1_7000 + which as u64);
}

#[derive(Clone, Copy, PartialEq, Eq)]
pub enum Which {
    C01,
    C02,
    C05,
}

pub fn run_case(ctx: &mut Ctx, which: Which, idx: u64) {
    let stream = match which {
        Which::C01 => "C01",
        Which::C02 => "C02",
        Which::C05 => "C05",
    };
    let mut rng = Rng::for_case(ctx.seed, stream, idx);
    if idx == LIMIT_PROBE_IDX && ctx.mode == Mode::Native {
        limit_probe(ctx, which, idx);
        return;
    }
    if idx == HUGE_STREAM_IDX && ctx.mode == Mode::Native && ctx.tier == Tier::Thorough {
        huge_stream_probe(ctx, which, idx);
        return;
    }
    let case = gen_case(ctx, &mut rng, idx);
    let spec = case.spec;
    if ctx.replay {
        println!("case {idx}: {}", case.to_json(200, 2000).to_string());
    }
    ctx.rep.evaluations += 1;
    let p = match build_case(&case, spec) {
        Ok(p) => p,
        Err(e) => {
            ctx.rep.count("build_failed_on_valid_input", 1);
            ctx.rep.note("build_errors", &format!("case {idx}: {e}"));
            return;
        }
    };
    let (blocks, _) = layout_stats(&mut ctx.rep, &p, &spec);

    let methods: &[Method] = match which {
        Which::C01 => &[Method::Overlap, Method::OverlapIter],
        Which::C02 => &[Method::Find, Method::FindIter],
        Which::C05 => &[Method::NoSuffix, Method::NoSuffixIter],
    };
    let occs = compare_with_models(ctx, idx, &case, &spec, &p, methods, "reference-model");

    // C05 only: internal consistency of the two real iterators
    if which == Which::C05 {
        let ns = p.num_states();
        for hay in &case.haystacks {
            let (ov, _) = p.search(Method::Overlap, hay, usize::MAX, loose_budget(hay.len(), ns));
            let mut first_per_end = Vec::new();
            for m in ov {
                if first_per_end.last().map_or(true, |l: &(usize, usize, u32)| l.1 != m.1) {
                    first_per_end.push(m);
                }
            }
            let (nsf, _) = p.search(Method::NoSuffix, hay, first_per_end.len() + 1, loose_budget(hay.len(), ns));
            ctx.rep.count("iterator_relation_checks", 1);
            if nsf != first_per_end {
                ctx.rep.violation(
                    "iterator-relation",
                    "find_overlapping_no_suffix_iter != first match per end position of the real find_overlapping_iter".into(),
                    idx,
                    mismatch_detail(&case, &spec, hay, Method::NoSuffix, &nsf, &first_per_end),
                );
            }
        }
    }

    // per-automaton table monitor: for-all-haystacks reach
    let trie = trie_for(&case, &spec);
    let sr = if which == Which::C01 { structure(ctx, &p, Some(&trie)) } else { structure_head_only(ctx, &p, Some(&trie)) };
    structure_stats(&mut ctx.rep, &sr);
    if !sr.table.is_empty() {
        ctx.rep.violation(
            "dfa-table",
            format!(
                "the automaton's own transition function / output lists are not equivalent to the textbook Aho-Corasick automaton: {}",
                sr.table[0]
            ),
            idx,
            struct_detail(&case, &spec, &sr.table),
        );
    }
    if !sr.table_done {
        ctx.rep.count("table_monitor_skipped_closure_or_ranking_failed", 1);
    }

    // non-triviality
    let multi_end = occs.iter().any(|occ| {
        let mut ends: Vec<usize> = occ.iter().map(|o| o.1).collect();
        ends.sort_unstable();
        ends.windows(2).any(|w| w[0] == w[1])
    });
    let low_label = case.patterns.iter().any(|p| p.iter().any(|&b| b <= 1));
    let skipped = occs.iter().any(|occ| occ.len() >= 2 && crate::oracle::find(occ).len() < occ.len());
    let overlapping_report = occs.iter().any(|occ| {
        let ns = crate::oracle::nosuffix(occ);
        ns.windows(2).any(|w| w[1].0 < w[0].1)
    });
    let nontrivial = match which {
        Which::C01 => multi_end || blocks >= 2 || low_label,
        Which::C02 => skipped || blocks >= 2,
        Which::C05 => overlapping_report || multi_end,
    };
    if multi_end {
        ctx.rep.count("cases_with_several_matches_at_one_end", 1);
    }
    if low_label {
        ctx.rep.count("cases_with_label_0x00_or_0x01", 1);
    }
    if nontrivial {
        ctx.rep.nontrivial.insert(case.digest());
        ctx.rep.sample(|| case.to_json(12, 120));
    }
    ctx.rep.note("workloads", case.workload);
}
