//! C01 (overlapping), C02 (non-overlapping standard), C05 (overlapping without suffixes).

use crate::case::Case;
use crate::common::*;
use crate::gen;
use crate::pma::{Entry, Method, Spec, Variant};
use crate::rng::Rng;
use daachorse::MatchKind;

pub fn num_cases(ctx: &Ctx) -> u64 {
    match (ctx.mode, ctx.tier) {
        (Mode::Miri, _) => 24,
        (Mode::Asan | Mode::Tsan, _) => 1500,
        (Mode::Native, Tier::Quick) => 20_000,
        (Mode::Native, Tier::Thorough) => 300_000,
    }
}

/// Fixed regression corpus (documented examples).
pub fn corpus() -> Vec<Case> {
    let mk = |variant, pats: &[&str], hays: &[&str]| Case {
        spec: Spec { variant, kind: MatchKind::Standard, nfb: None, entry: Entry::New },
        patterns: pats.iter().map(|s| s.as_bytes().to_vec()).collect(),
        values: (0..pats.len() as u32).collect(),
        haystacks: hays.iter().map(|s| s.as_bytes().to_vec()).collect(),
        utf8: true,
        workload: "regression-corpus",
    };
    let mut v = Vec::new();
    for variant in [Variant::Bytewise, Variant::Charwise] {
        v.push(mk(variant, &["bcd", "ab", "a"], &["abcd", "", "a", "xabcdabcd"]));
        v.push(mk(variant, &["bcd", "cd", "abc"], &["abcd"]));
        v.push(mk(variant, &["全世界", "世界", "に"], &["全世界中に", "世界に全世界"]));
        v.push(mk(variant, &["a", "aa", "aaa", "aaaa"], &["aaaaaa"]));
        v.push(mk(variant, &["abcd", "bcd", "cd", "d", "bc"], &["abcdbcd", "xabcd"]));
        v.push(mk(variant, &["ab", "ba"], &["ababa", "bab"]));
    }
    v
}

fn gen_case(ctx: &Ctx, rng: &mut Rng, idx: u64) -> Case {
    let corp = corpus();
    if (idx as usize) < corp.len() {
        return corp[idx as usize].clone();
    }
    let variant = if rng.chance(1, 2) { Variant::Bytewise } else { Variant::Charwise };
    let kind = MatchKind::Standard;
    if ctx.slow() {
        return gen::small_case(rng, variant, kind, true);
    }
    match rng.below(40) {
        0..=2 => {
            let cap = match (ctx.mode, ctx.tier) {
                (Mode::Native, Tier::Thorough) => 12_000,
                (Mode::Native, Tier::Quick) => 2500,
                _ => 1200,
            };
            gen::large_case(rng, variant, kind, cap)
        }
        3 => gen::adversarial_case(rng, variant),
        _ => gen::small_case(rng, variant, kind, false),
    }
}

#[derive(Clone, Copy, PartialEq, Eq)]
pub enum Which {
    C01,
    C02,
    C05,
}

pub fn run_case(ctx: &mut Ctx, which: Which, idx: u64) {
    let stream = match which {
        Which::C01 => "C01",
        Which::C02 => "C02",
        Which::C05 => "C05",
    };
    let mut rng = Rng::for_case(ctx.seed, stream, idx);
    let case = gen_case(ctx, &mut rng, idx);
    let spec = case.spec;
    if ctx.replay {
        println!("case {idx}: {}", case.to_json(200, 2000).to_string());
    }
    ctx.rep.evaluations += 1;
    let p = match build_case(&case, spec) {
        Ok(p) => p,
        Err(e) => {
            ctx.rep.count("build_failed_on_valid_input", 1);
            ctx.rep.note("build_errors", &format!("case {idx}: {e}"));
            return;
        }
    };
    let (blocks, _) = layout_stats(&mut ctx.rep, &p, &spec);

    let methods: &[Method] = match which {
        Which::C01 => &[Method::Overlap, Method::OverlapIter],
        Which::C02 => &[Method::Find, Method::FindIter],
        Which::C05 => &[Method::NoSuffix, Method::NoSuffixIter],
    };
    let occs = compare_with_models(ctx, idx, &case, &spec, &p, methods, "reference-model");

    // C05 only: internal consistency of the two real iterators
    if which == Which::C05 {
        let ns = p.num_states();
        for hay in &case.haystacks {
            let (ov, _) = p.search(Method::Overlap, hay, usize::MAX, loose_budget(hay.len(), ns));
            let mut first_per_end = Vec::new();
            for m in ov {
                if first_per_end.last().map_or(true, |l: &(usize, usize, u32)| l.1 != m.1) {
                    first_per_end.push(m);
                }
            }
            let (nsf, _) = p.search(Method::NoSuffix, hay, first_per_end.len() + 1, loose_budget(hay.len(), ns));
            ctx.rep.count("iterator_relation_checks", 1);
            if nsf != first_per_end {
                ctx.rep.violation(
                    "iterator-relation",
                    "find_overlapping_no_suffix_iter != first match per end position of the real find_overlapping_iter".into(),
                    idx,
                    mismatch_detail(&case, &spec, hay, Method::NoSuffix, &nsf, &first_per_end),
                );
            }
        }
    }

    // per-automaton table monitor: for-all-haystacks reach
    let trie = trie_for(&case, &spec);
    let sr = if which == Which::C01 { structure(ctx, &p, Some(&trie)) } else { structure_head_only(ctx, &p, Some(&trie)) };
    structure_stats(&mut ctx.rep, &sr);
    if !sr.table.is_empty() {
        ctx.rep.violation(
            "dfa-table",
            format!(
                "the automaton's own transition function / output lists are not equivalent to the textbook Aho-Corasick automaton: {}",
                sr.table[0]
            ),
            idx,
            struct_detail(&case, &spec, &sr.table),
        );
    }
    if !sr.table_done {
        ctx.rep.count("table_monitor_skipped_closure_or_ranking_failed", 1);
    }

    // non-triviality
    let multi_end = occs.iter().any(|occ| {
        let mut ends: Vec<usize> = occ.iter().map(|o| o.1).collect();
        ends.sort_unstable();
        ends.windows(2).any(|w| w[0] == w[1])
    });
    let low_label = case.patterns.iter().any(|p| p.iter().any(|&b| b <= 1));
    let skipped = occs.iter().any(|occ| occ.len() >= 2 && crate::oracle::find(occ).len() < occ.len());
    let overlapping_report = occs.iter().any(|occ| {
        let ns = crate::oracle::nosuffix(occ);
        ns.windows(2).any(|w| w[1].0 < w[0].1)
    });
    let nontrivial = match which {
        Which::C01 => multi_end || blocks >= 2 || low_label,
        Which::C02 => skipped || blocks >= 2,
        Which::C05 => overlapping_report || multi_end,
    };
    if multi_end {
        ctx.rep.count("cases_with_several_matches_at_one_end", 1);
    }
    if low_label {
        ctx.rep.count("cases_with_label_0x00_or_0x01", 1);
    }
    if nontrivial {
        ctx.rep.nontrivial.insert(case.digest());
        ctx.rep.sample(|| case.to_json(12, 120));
    }
    ctx.rep.note("workloads", case.workload);
}
