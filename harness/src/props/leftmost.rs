//! C03 (leftmost-longest) and C04 (leftmost-first).

use crate::case::Case;
use crate::common::*;
use crate::gen::{self, Alpha, Shape};
use crate::json::J;
use crate::oracle::{self, PatTrie};
use crate::pma::{Entry, Method, Spec, Variant};
use crate::rng::Rng;
use daachorse::MatchKind;

pub fn num_cases(ctx: &Ctx) -> u64 {
    match (ctx.mode, ctx.tier) {
        (Mode::Miri, _) => 24,
        (Mode::Asan | Mode::Tsan, _) => 1500,
        (Mode::Native, Tier::Quick) => 12_000,
        (Mode::Native, Tier::Thorough) => 400_000,
    }
}

pub fn corpus(kind: MatchKind) -> Vec<Case> {
    let mk = |variant, pats: &[&str], hays: &[&str]| Case {
        spec: Spec { variant, kind, nfb: None, entry: Entry::New },
        patterns: pats.iter().map(|s| s.as_bytes().to_vec()).collect(),
        values: (0..pats.len() as u32).collect(),
        haystacks: hays.iter().map(|s| s.as_bytes().to_vec()).collect(),
        utf8: true,
        workload: "regression-corpus",
    };
    let mut v = Vec::new();
    for variant in [Variant::Bytewise, Variant::Charwise] {
        v.push(mk(variant, &["ab", "a", "abcd"], &["abcd", "abcabcd", "xaab"]));
        v.push(mk(variant, &["abcd", "bcd", "cd", "b"], &["abcx", "abcdx", "bcbcd"]));
    }
    v
}

fn gen_case(ctx: &Ctx, rng: &mut Rng, idx: u64, kind: MatchKind) -> (Case, bool) {
    let corp = corpus(kind);
    if (idx as usize) < corp.len() {
        return (corp[idx as usize].clone(), false);
    }
    let variant = if rng.chance(1, 2) { Variant::Bytewise } else { Variant::Charwise };
    if ctx.slow() {
        return (gen::small_case(rng, variant, kind, true), false);
    }
    match rng.below(40) {
        0 | 1 => {
            let cap = match (ctx.mode, ctx.tier) {
                (Mode::Native, Tier::Thorough) => 8000,
                (Mode::Native, Tier::Quick) => 2000,
                _ => 1000,
            };
            (gen::large_case(rng, variant, kind, cap), false)
        }
        2..=6 => {
            // W4: tiny automaton, bounded-exhaustive haystacks
            let alpha = match variant {
                Variant::Bytewise => *rng.pick(&[Alpha::Binary, Alpha::Ascii]),
                Variant::Charwise => *rng.pick(&[Alpha::Utf8Low, Alpha::Utf8Full, Alpha::Ascii]),
            };
            let sh = Shape {
                variant,
                kind,
                alpha,
                alpha_size: (1, 3),
                n_patterns: (1, 6),
                max_len: 4,
                derive_pct: 50,
                n_haystacks: 0,
                hay_pieces: (1, 1),
                workload: "W4-bounded-exhaustive",
            };
            let mut c = gen::case_from_shape(rng, &sh);
            let mut syms = gen::case_symbols(&c);
            let frn = gen::foreign(rng, alpha, &syms);
            if let Some(f) = frn.first() {
                syms.push(f.clone());
            }
            let max_len = match syms.len() {
                0..=2 => 10,
                3 => 7,
                _ => 6,
            };
            let cap = if ctx.tier == Tier::Thorough { 20_000 } else { 6000 };
            c.haystacks = gen::exhaustive_haystacks(&syms, max_len, cap);
            (c, true)
        }
        _ => (gen::small_case(rng, variant, kind, false), false),
    }
}

fn permuted(case: &Case, perm: &[usize]) -> Case {
    let mut c = case.clone();
    c.patterns = perm.iter().map(|&i| case.patterns[i].clone()).collect();
    c.values = perm.iter().map(|&i| case.values[i]).collect();
    c.spec.entry = Entry::WithValues;
    c
}

pub fn run_case(ctx: &mut Ctx, kind: MatchKind, idx: u64) {
    let stream = if kind == MatchKind::LeftmostLongest { "C03" } else { "C04" };
    let mut rng = Rng::for_case(ctx.seed, stream, idx);
    let (base, exhaustive) = gen_case(ctx, &mut rng, idx, kind);
    if ctx.replay {
        println!("case {idx}: {}", base.to_json(200, 2000).to_string());
    }
    // W6: registration orders
    let n = base.patterns.len();
    let mut orders: Vec<Vec<usize>> = vec![(0..n).collect()];
    if n >= 2 && base.workload != "W3-block-spanning" {
        let mut rev: Vec<usize> = (0..n).rev().collect();
        orders.push(rev.clone());
        let mut by_len: Vec<usize> = (0..n).collect();
        by_len.sort_by_key(|&i| (base.patterns[i].len(), base.patterns[i].clone()));
        orders.push(by_len.clone());
        by_len.reverse();
        orders.push(by_len);
        let k = if exhaustive { 1 } else { 2 };
        for _ in 0..k {
            rng.shuffle(&mut rev);
            orders.push(rev.clone());
        }
        orders.sort();
        orders.dedup();
    }
    for (oi, perm) in orders.iter().enumerate() {
        let case = if oi == 0 && perm.iter().enumerate().all(|(i, &j)| i == j) { base.clone() } else { permuted(&base, perm) };
        let spec = case.spec;
        ctx.rep.evaluations += 1;
        let p = match build_case(&case, spec) {
            Ok(p) => p,
            Err(e) => {
                ctx.rep.count("build_failed_on_valid_input", 1);
                ctx.rep.note("build_errors", &format!("case {idx}: {e}"));
                continue;
            }
        };
        layout_stats(&mut ctx.rep, &p, &spec);
        let occs = compare_with_models(ctx, idx, &case, &spec, &p, &[Method::Leftmost], "reference-model");
        if exhaustive {
            ctx.rep.count("bounded_exhaustive_automata", 1);
            ctx.rep.count("bounded_exhaustive_haystacks", case.haystacks.len() as u64);
        }

        let sh = oracle::shadowed(&case.patterns);
        let n_shadowed = sh.iter().filter(|&&b| b).count();
        if kind == MatchKind::LeftmostFirst && n_shadowed > 0 && n_shadowed < case.patterns.len() {
            // metamorphic monitor: removing the shadowed patterns changes nothing
            let mut red = case.clone();
            red.patterns = case.patterns.iter().zip(&sh).filter(|(_, &s)| !s).map(|(p, _)| p.clone()).collect();
            red.values = case.values.iter().zip(&sh).filter(|(_, &s)| !s).map(|(v, _)| *v).collect();
            red.spec.entry = Entry::WithValues;
            ctx.rep.count("shadow_removal_checks", 1);
            match build_case(&red, red.spec) {
                Ok(q) => {
                    let ns = p.num_states();
                    for hay in &case.haystacks {
                        let (a, _) = p.search(Method::Leftmost, hay, hay.len() + 2, loose_budget(hay.len(), ns));
                        let (b, _) = q.search(Method::Leftmost, hay, hay.len() + 2, loose_budget(hay.len(), ns));
                        if a != b {
                            ctx.rep.violation(
                                "shadow-removal",
                                "removing the shadowed patterns (those with an earlier-registered proper prefix) changes what leftmost-first search reports".into(),
                                idx,
                                mismatch_detail(&case, &spec, hay, Method::Leftmost, &a, &b)
                                    .set("note", J::s("expected = result of the automaton built without the shadowed patterns")),
                            );
                            break;
                        }
                    }
                }
                Err(e) => {
                    ctx.rep.count("build_failed_on_valid_input", 1);
                    ctx.rep.note("build_errors", &format!("case {idx} (reduced): {e}"));
                }
            }
        }

        // non-triviality
        let same_start = occs.iter().any(|occ| occ.windows(2).any(|w| w[0].0 == w[1].0));
        let superseded = occs.iter().any(|occ| {
            let m = model(Method::Leftmost, kind, occ);
            m.len() < occ.len() && m.len() >= 1
        });
        let later_shorter = case.patterns.iter().enumerate().any(|(i, p)| {
            case.patterns.iter().enumerate().any(|(j, q)| j > i && q.len() < p.len() && p.starts_with(q))
        });
        let nontrivial = if kind == MatchKind::LeftmostLongest {
            same_start || superseded
        } else {
            n_shadowed > 0 || (later_shorter && same_start)
        };
        if n_shadowed > 0 {
            ctx.rep.count("cases_with_shadowed_patterns", 1);
        }
        if same_start {
            ctx.rep.count("cases_with_several_candidates_at_one_start", 1);
        }
        if nontrivial {
            ctx.rep.nontrivial.insert(case.digest());
            ctx.rep.sample(|| case.to_json(12, 120));
        }
        let _ = PatTrie::new; // (oracle construction happens in compare_with_models)
    }
    if orders.len() > 1 {
        ctx.rep.count("pattern_sets_tried_in_several_orders", 1);
        ctx.rep.count("registration_orders_tried", orders.len() as u64);
    }
    ctx.rep.note("workloads", base.workload);
}
