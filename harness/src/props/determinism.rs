//! C14: construction is deterministic and (Standard / LeftmostLongest) independent of the input
//! order; searching is pure: repeated, interleaved or concurrent searches on one shared automaton
//! return the same results as a single search and leave the automaton unchanged.

use crate::case::Case;
use crate::common::*;
use crate::gen;
use crate::json::J;
use crate::pma::{kind_name, Entry, Method, Variant, M};
use crate::rng::Rng;
use daachorse::MatchKind;
use std::sync::atomic::{AtomicU64, Ordering};

pub fn num_cases(ctx: &Ctx) -> u64 {
    match (ctx.mode, ctx.tier) {
        (Mode::Miri, _) => 6,
        (Mode::Tsan, Tier::Quick) => 160,
        (Mode::Tsan, Tier::Thorough) => 1500,
        (Mode::Asan, _) => 600,
        (Mode::Native, Tier::Quick) => 6_000,
        (Mode::Native, Tier::Thorough) => 60_000,
    }
}

fn permuted(case: &Case, perm: &[usize]) -> Case {
    let mut c = case.clone();
    c.patterns = perm.iter().map(|&i| case.patterns[i].clone()).collect();
    c.values = perm.iter().map(|&i| case.values[i]).collect();
    c.spec.entry = Entry::WithValues;
    c
}

fn diff_detail(case: &Case, what: &str, a: &[u8], b: &[u8]) -> J {
    J::obj()
        .set("spec", Case::spec_j(&case.spec))
        .set("compared", J::s(what))
        .set("serialized_len_a", J::us(a.len()))
        .set("serialized_len_b", J::us(b.len()))
        .set("first_differing_byte_offset", J::us(first_diff(a, b)))
        .set("case", case.to_json(60, 200))
}

struct OpRec {
    thread: usize,
    op: usize,
    start: u64,
    end: u64,
}

pub fn run_case(ctx: &mut Ctx, idx: u64) {
    let mut rng = Rng::for_case(ctx.seed, "C14", idx);
    let variant = if rng.chance(1, 2) { Variant::Bytewise } else { Variant::Charwise };
    let kind = gen::any_kind(&mut rng);
    let mut case: Case = if ctx.mode == Mode::Native && (30..34).contains(&idx) {
        // fixed slots: pattern sets in which one symbol occurs more than 65 536 times (both variants)
        let v = if idx % 2 == 0 { Variant::Charwise } else { Variant::Bytewise };
        let k = if idx < 32 { MatchKind::Standard } else { MatchKind::LeftmostLongest };
        gen::many_patterns_common(&mut rng, v, k)
    } else if ctx.slow() {
        gen::small_case(&mut rng, variant, kind, true)
    } else if ctx.mode == Mode::Native && rng.below(1200) == 0 {
        // one symbol occurring more than 65 536 times: frequency bookkeeping must stay order-independent
        gen::many_patterns_case(&mut rng, variant, kind)
    } else if rng.below(30) == 0 {
        gen::large_case(&mut rng, variant, kind, if ctx.tier == Tier::Thorough { 5000 } else { 1500 })
    } else {
        gen::small_case(&mut rng, variant, kind, false)
    };
    let kind = case.spec.kind;
    let variant = case.spec.variant;
    // make the case's own entry point explicit: values follow the patterns
    if case.spec.entry == Entry::New {
        case.values = (0..case.patterns.len() as u32).collect();
    }
    let spec = case.spec;
    if ctx.replay {
        println!("case {idx}: {}", case.to_json(200, 2000).to_string());
    }
    ctx.rep.evaluations += 1;
    let p = match build_case(&case, spec) {
        Ok(p) => p,
        Err(e) => {
            ctx.rep.count("build_failed_on_valid_input", 1);
            ctx.rep.note("build_errors", &format!("case {idx}: {e}"));
            return;
        }
    };
    let bytes = p.serialize();
    ctx.rep.note("kinds", kind_name(kind));
    ctx.rep.note("workloads", case.workload);

    // (a) build twice from the same input
    match build_case(&case, spec) {
        Ok(p2) => {
            ctx.rep.count("rebuilds_compared", 1);
            let b2 = p2.serialize();
            if !p.same(&p2) || b2 != bytes {
                ctx.rep.violation(
                    "build-twice",
                    "building twice from the same input gives automata that differ (== or serialised bytes)".into(),
                    idx,
                    diff_detail(&case, "same input built twice", &bytes, &b2),
                );
            }
        }
        Err(e) => {
            ctx.rep.violation("build-twice", format!("second build of the same input failed: {e}"), idx, case.to_json(60, 200));
        }
    }

    // (b) permutations of the pattern/value pairs
    let n = case.patterns.len();
    let mut nontrivial_perm = false;
    if kind != MatchKind::LeftmostFirst && n >= 2 {
        let wv = permuted(&case, &(0..n).collect::<Vec<_>>());
        let ref_p = match build_case(&wv, wv.spec) {
            Ok(x) => x,
            Err(_) => return,
        };
        let ref_bytes = ref_p.serialize();
        let mut perms: Vec<Vec<usize>> = Vec::new();
        perms.push((0..n).rev().collect());
        let mut sorted: Vec<usize> = (0..n).collect();
        sorted.sort_by(|&a, &b| case.patterns[a].cmp(&case.patterns[b]));
        perms.push(sorted.clone());
        sorted.sort_by_key(|&i| (std::cmp::Reverse(case.patterns[i].len()), case.patterns[i].clone()));
        perms.push(sorted);
        let k = if n > 1000 { 1 } else { 3 };
        for _ in 0..k {
            let mut sh: Vec<usize> = (0..n).collect();
            rng.shuffle(&mut sh);
            perms.push(sh);
        }
        for perm in perms {
            if perm.iter().enumerate().all(|(i, &j)| i == j) {
                continue;
            }
            let pc = permuted(&case, &perm);
            ctx.rep.count("permutations_compared", 1);
            if n >= 3 {
                nontrivial_perm = true;
            }
            match build_case(&pc, pc.spec) {
                Ok(pp) => {
                    let pb = pp.serialize();
                    if !pp.same(&ref_p) || pb != ref_bytes {
                        ctx.rep.violation(
                            "permutation",
                            format!(
                                "building from a permutation of the same pattern/value pairs gives a different automaton ({}, {})",
                                if variant == Variant::Bytewise { "byte-wise" } else { "char-wise" },
                                kind_name(kind)
                            ),
                            idx,
                            diff_detail(&wv, "identity order vs permuted order", &ref_bytes, &pb)
                                .set("permutation", J::arr(perm.iter().take(60).map(|&i| J::us(i)))),
                        );
                        break;
                    }
                }
                Err(e) => {
                    ctx.rep.violation("permutation", format!("build of a permutation failed: {e}"), idx, pc.to_json(60, 200));
                    break;
                }
            }
        }
    }

    // sequential baseline for purity / concurrency
    let methods = Method::for_kind(kind);
    let ns = p.num_states();
    let mut ops: Vec<(Method, usize)> = Vec::new();
    for (hi, _) in case.haystacks.iter().enumerate() {
        for &m in methods {
            ops.push((m, hi));
        }
    }
    if ops.is_empty() {
        return;
    }
    let baseline: Vec<Vec<M<u32>>> = ops
        .iter()
        .map(|&(m, hi)| p.search(m, &case.haystacks[hi], usize::MAX, loose_budget(case.haystacks[hi].len(), ns)).0)
        .collect();

    // (c) purity: repeated and interleaved searches, automaton unchanged
    let clone_before = p.clone();
    for _ in 0..2 {
        let mut order: Vec<usize> = (0..ops.len()).collect();
        rng.shuffle(&mut order);
        for &oi in &order {
            let (m, hi) = ops[oi];
            let (got, _) = p.search(m, &case.haystacks[hi], baseline[oi].len() + 1, loose_budget(case.haystacks[hi].len(), ns));
            ctx.rep.count("repeated_searches_compared", 1);
            if got != baseline[oi] {
                ctx.rep.violation(
                    "purity",
                    format!("{} returns a different result when repeated after other searches on the same automaton", m.name()),
                    idx,
                    mismatch_detail(&case, &spec, &case.haystacks[hi], m, &got, &baseline[oi]),
                );
                return;
            }
        }
    }
    let after = p.serialize();
    if after != bytes || !p.same(&clone_before) {
        ctx.rep.violation(
            "purity",
            "searching modified the automaton (serialised bytes / equality changed)".into(),
            idx,
            diff_detail(&case, "before vs after a sequence of searches", &bytes, &after),
        );
        return;
    }

    // (d) concurrent histories on one shared automaton. Every round uses a *never searched*
    //     automaton (rebuilt, cloned or restored from bytes — a warmed-up one would hide races in
    //     lazily initialised state), and the threads are released by a spin flag so that their first
    //     searches really overlap.
    let threads = if ctx.slow() { 3 } else { *rng.pick(&[2usize, 2, 4, 4, 8, 8, 16]) };
    let ops_per_thread = if ctx.slow() { 3 } else { rng.range(2, 12) };
    let rounds = if ctx.slow() { 1 } else { 3 };
    let mut all_recs: Vec<OpRec> = Vec::new();
    for round in 0..rounds {
        // `fresh` is shared by the threads; `reference` is a second object obtained the same way,
        // searched sequentially beforehand: the baseline of a round comes from the same source as
        // its shared automaton (so that a defect of clone / deserialisation, which C09 decides, is
        // not reported here) but never from the shared object itself
        let (fresh, reference): (crate::pma::Pma<u32>, crate::pma::Pma<u32>) = match round % 3 {
            0 => match (build_case(&case, spec), build_case(&case, spec)) {
                (Ok(x), Ok(y)) => (x, y),
                _ => return,
            },
            1 => (p.clone(), p.clone()),
            _ => unsafe { (crate::pma::Pma::<u32>::deserialize(spec.variant, &bytes).0, crate::pma::Pma::<u32>::deserialize(spec.variant, &bytes).0) },
        };
        if reference.kind() != kind {
            ctx.rep.count("reference_automaton_changed_kind", 1);
            continue;
        }
        let baseline: Vec<Vec<M<u32>>> = ops
            .iter()
            .map(|&(m, hi)| reference.search(m, &case.haystacks[hi], usize::MAX, loose_budget(case.haystacks[hi].len(), ns)).0)
            .collect();
        ctx.rep.note("fresh_automaton_sources", ["rebuilt", "cloned", "deserialized"][round % 3]);
        let plans: Vec<Vec<usize>> = (0..threads).map(|_| (0..ops_per_thread).map(|_| rng.usize_below(ops.len())).collect()).collect();
        let ticket = AtomicU64::new(0);
        let ready = AtomicU64::new(0);
        let go = std::sync::atomic::AtomicBool::new(false);
        let shared = &fresh;
        let hays = &case.haystacks;
        let ops_ref = &ops;
        let results: Vec<(Vec<OpRec>, Vec<Vec<M<u32>>>)> = std::thread::scope(|s| {
            let handles: Vec<_> = plans
                .iter()
                .enumerate()
                .map(|(t, plan)| {
                    let (ticket, ready, go) = (&ticket, &ready, &go);
                    s.spawn(move || {
                        let mut recs = Vec::new();
                        let mut outs = Vec::new();
                        ready.fetch_add(1, Ordering::SeqCst);
                        while !go.load(Ordering::Acquire) {
                            std::hint::spin_loop();
                        }
                        for &oi in plan {
                            let (m, hi) = ops_ref[oi];
                            let start = ticket.fetch_add(1, Ordering::SeqCst);
                            let (got, _) = shared.search(m, &hays[hi], usize::MAX, loose_budget(hays[hi].len(), ns));
                            let end = ticket.fetch_add(1, Ordering::SeqCst);
                            recs.push(OpRec { thread: t, op: oi, start, end });
                            outs.push(got);
                        }
                        (recs, outs)
                    })
                })
                .collect();
            // release everybody at once, when all threads are spinning (bounded wait: on a loaded
            // machine some threads may not be scheduled yet; then the round is simply less tight)
            let mut spins = 0u64;
            while (ready.load(Ordering::SeqCst) as usize) < threads && spins < 50_000_000 {
                std::hint::spin_loop();
                spins += 1;
            }
            go.store(true, Ordering::Release);
            handles.into_iter().map(|h| h.join().expect("harness: worker thread panicked")).collect()
        });
        ctx.rep.count("concurrent_histories", 1);
        for (recs, outs) in results {
            for (r, got) in recs.into_iter().zip(outs.into_iter()) {
                ctx.rep.count("concurrent_ops_compared", 1);
                if got != baseline[r.op] {
                    let (m, hi) = ops[r.op];
                    ctx.rep.violation(
                        "concurrent-history",
                        format!(
                            "{} on a shared, previously unsearched automaton returned a different result in thread {} than the sequential search",
                            m.name(),
                            r.thread
                        ),
                        idx,
                        mismatch_detail(&case, &spec, &case.haystacks[hi], m, &got, &baseline[r.op]),
                    );
                    return;
                }
                let off = 1_000_000 * round as u64;
                all_recs.push(OpRec { thread: r.thread + 16 * round, op: r.op, start: r.start + off, end: r.end + off });
            }
        }
        let after = fresh.serialize();
        if after != reference.serialize() {
            ctx.rep.violation(
                "purity",
                "concurrent searching modified the shared automaton".into(),
                idx,
                diff_detail(&case, "before vs after concurrent searches", &bytes, &after),
            );
            return;
        }
    }
    let mut all: Vec<&OpRec> = all_recs.iter().collect();
    // measure (evidence only): overlapping op pairs of different threads, interleaving signature
    let mut overlapping = 0u64;
    for i in 0..all.len() {
        for j in 0..i {
            if all[i].thread != all[j].thread && all[i].start < all[j].end && all[j].start < all[i].end {
                overlapping += 1;
            }
        }
    }
    all.sort_by_key(|r| r.start);
    let sig: Vec<u8> = all.iter().map(|r| r.thread as u8).collect();
    ctx.rep.count("overlapping_op_pairs", overlapping);
    ctx.rep.note("interleaving_signatures", &format!("{:016x}", crate::rng::fnv(&sig)));
    if nontrivial_perm || overlapping > 0 {
        ctx.rep.nontrivial.insert(case.digest());
        ctx.rep.sample(|| {
            J::obj()
                .set("threads", J::us(threads))
                .set("ops_per_thread", J::us(ops_per_thread))
                .set("overlapping_op_pairs", J::u(overlapping))
                .set("start_order_by_thread", J::Str(sig.iter().take(64).map(|t| format!("{t:x}")).collect::<String>()))
                .set("case", case.to_json(8, 80))
        });
    }
}
