pub mod accept;
pub mod determinism;
pub mod diff;
pub mod evlog;
pub mod leftmost;
pub mod std_search;
pub mod structural;
pub mod typed;

use crate::common::Ctx;
use daachorse::MatchKind;

pub const ALL: [&str; 15] = [
    "C01", "C02", "C03", "C04", "C05", "C06", "C07", "C08", "C09", "C10", "C11", "C12", "C13", "C14", "C15",
];

/// Number of cases of a property for the context's tier/mode.
pub fn num_cases(prop: &str, ctx: &Ctx) -> u64 {
    match prop {
        "C01" | "C02" | "C05" => std_search::num_cases(ctx),
        "C03" | "C04" => leftmost::num_cases(ctx),
        "C06" | "C09" => typed::num_cases(ctx),
        "C07" => structural::num_cases(ctx, structural::Which::C07),
        "C13" => structural::num_cases(ctx, structural::Which::C13),
        "C15" => structural::num_cases(ctx, structural::Which::C15),
        "C08" => diff::num_cases(ctx, false),
        "C11" => diff::num_cases(ctx, true),
        "C10" => accept::num_cases(ctx),
        "C12" => evlog::num_cases(ctx),
        "C14" => determinism::num_cases(ctx),
        _ => 0,
    }
}

pub fn run_case(prop: &str, ctx: &mut Ctx, idx: u64) {
    match prop {
        "C01" => std_search::run_case(ctx, std_search::Which::C01, idx),
        "C02" => std_search::run_case(ctx, std_search::Which::C02, idx),
        "C05" => std_search::run_case(ctx, std_search::Which::C05, idx),
        "C03" => leftmost::run_case(ctx, MatchKind::LeftmostLongest, idx),
        "C04" => leftmost::run_case(ctx, MatchKind::LeftmostFirst, idx),
        "C06" => typed::run_case(ctx, typed::Which::C06, idx),
        "C09" => typed::run_case(ctx, typed::Which::C09, idx),
        "C07" => structural::run_case(ctx, structural::Which::C07, idx),
        "C13" => structural::run_case(ctx, structural::Which::C13, idx),
        "C15" => structural::run_case(ctx, structural::Which::C15, idx),
        "C08" => diff::run_c08(ctx, idx),
        "C11" => diff::run_c11(ctx, idx),
        "C10" => accept::run_case(ctx, idx),
        "C12" => evlog::run_case(ctx, idx),
        "C14" => determinism::run_case(ctx, idx),
        _ => panic!("harness: unknown property {prop}"),
    }
}
