//! C08 (char-wise ≡ byte-wise on UTF-8) and C11 (num_free_blocks is a pure tuning knob).

use crate::case::Case;
use crate::common::*;
use crate::gen::{self, Alpha, Shape};
use crate::json::J;
use crate::oracle::PatTrie;
use crate::pma::{kind_name, Method, Spec, Variant};
use crate::rng::Rng;

pub fn num_cases(ctx: &Ctx, c11: bool) -> u64 {
    match (ctx.mode, ctx.tier, c11) {
        (Mode::Miri, _, _) => 16,
        (Mode::Asan | Mode::Tsan, _, false) => 1500,
        (Mode::Asan | Mode::Tsan, _, true) => 200,
        (Mode::Native, Tier::Quick, false) => 50_000,
        (Mode::Native, Tier::Thorough, false) => 600_000,
        (Mode::Native, Tier::Quick, true) => 900 + 147,
        (Mode::Native, Tier::Thorough, true) => 6000,
    }
}

// -------------------------------------------------------------------------------------------- C08

pub fn run_c08(ctx: &mut Ctx, idx: u64) {
    let mut rng = Rng::for_case(ctx.seed, "C08", idx);
    let kind = gen::any_kind(&mut rng);
    let case: Case = if ctx.slow() {
        gen::small_case(&mut rng, Variant::Charwise, kind, true)
    } else {
        match rng.below(40) {
            0 | 1 => gen::large_case(&mut rng, Variant::Charwise, kind, if ctx.tier == Tier::Thorough { 8000 } else { 2000 }),
            2..=9 => {
                // medium alphabets of neighbouring code points of every width
                let sh = Shape {
                    variant: Variant::Charwise,
                    kind,
                    alpha: Alpha::Utf8Full,
                    alpha_size: (3, 12),
                    n_patterns: (2, 40),
                    max_len: 5,
                    derive_pct: 35,
                    n_haystacks: 5,
                    hay_pieces: (2, 30),
                    workload: "W5-utf8-medium",
                };
                gen::case_from_shape(&mut rng, &sh)
            }
            _ => loop {
                let c = gen::small_case(&mut rng, Variant::Charwise, kind, false);
                if c.utf8 {
                    break c;
                }
            },
        }
    };
    if ctx.replay {
        println!("case {idx}: {}", case.to_json(200, 2000).to_string());
    }
    ctx.rep.evaluations += 1;
    let spec_c = case.spec;
    let spec_b = Spec { variant: Variant::Bytewise, nfb: gen::nfb(&mut rng), ..spec_c };
    let (pc, pb) = match (build_case(&case, spec_c), build_case(&case, spec_b)) {
        (Ok(a), Ok(b)) => (a, b),
        (a, b) if a.is_ok() != b.is_ok() => {
            ctx.rep.violation(
                "differential-build",
                format!(
                    "only one of the two variants can be built from the same valid UTF-8 patterns: char-wise {}, byte-wise {}",
                    a.as_ref().err().map_or("ok".to_string(), |e| e.clone()),
                    b.as_ref().err().map_or("ok".to_string(), |e| e.clone())
                ),
                idx,
                J::obj().set("spec_charwise", Case::spec_j(&spec_c)).set("spec_bytewise", Case::spec_j(&spec_b)).set("case", case.to_json(40, 200)),
            );
            return;
        }
        (a, b) => {
            ctx.rep.count("build_failed_on_valid_input", 1);
            ctx.rep.note(
                "build_errors",
                &format!("case {idx}: charwise {:?} bytewise {:?}", a.err().map(|e| e.to_string()), b.err().map(|e| e.to_string())),
            );
            return;
        }
    };
    ctx.rep.count("automata_pairs", 1);
    // for all haystacks of this pair: product walk of the two real automata (when both pass the
    // closure and ranking monitors, which C07/C13 decide)
    {
        let (sc, sb) = (structure(ctx, &pc, None), structure(ctx, &pb, None));
        if sc.closure.is_empty() && sc.ranking.is_empty() && sb.closure.is_empty() && sb.ranking.is_empty() {
            let pr = crate::monitor::check_cross_variant_equivalence(&pc, &pb, ctx.transition_cap());
            ctx.rep.count("automaton_pairs_walked", 1);
            ctx.rep.count("product_pairs_validated", pr.pairs as u64);
            ctx.rep.count("dfa_transitions_validated", pr.transitions);
            if let Some(d) = pr.differences.first() {
                ctx.rep.violation(
                    "cross-variant-product",
                    format!("the char-wise and the byte-wise automaton built from the same patterns are not equivalent ({}): {d}", kind_name(kind)),
                    idx,
                    struct_detail(&case, &spec_c, &pr.differences),
                );
            }
        } else {
            ctx.rep.count("product_walk_skipped_closure_or_ranking_failed", 1);
        }
    }
    let pt = PatTrie::new(&case.patterns);
    let nsb = pb.num_states();
    let nsc = pc.num_states();
    let mut multibyte_in_match = false;
    let mut unmapped_between = false;
    let pat_chars: std::collections::HashSet<char> = case.patterns.iter().flat_map(|p| std::str::from_utf8(p).unwrap().chars().collect::<Vec<_>>()).collect();
    let max_pat_char = pat_chars.iter().copied().max().unwrap_or('\0');
    for hay in &case.haystacks {
        let hs = std::str::from_utf8(hay).expect("harness: utf8 haystack");
        let occ = pt.occurrences(hay);
        for &m in Method::for_kind(kind) {
            let exp = to_m(&model(m, kind, &occ), &case.values);
            let rc = pc.try_search(m, hay, exp.len() + 1, loose_budget(hay.len(), nsc));
            let rb = pb.try_search(m, hay, exp.len() + 1, loose_budget(hay.len(), nsb));
            ctx.rep.count("method_pairs_compared", 1);
            ctx.rep.count("matches_compared", exp.len() as u64);
            let (gc, gb) = match (rc, rb) {
                (Ok(a), Ok(b)) => (a.0, b.0),
                (Err(_), Err(_)) => {
                    // both variants panic alike: they do not disagree (C01-C06 decide the panic)
                    ctx.rep.count("both_variants_panicked", 1);
                    continue;
                }
                (a, b) => {
                    ctx.rep.violation(
                        "differential",
                        format!(
                            "{} ({}): one variant panics and the other returns: char-wise {}, byte-wise {}",
                            m.name(),
                            kind_name(kind),
                            a.as_ref().err().map_or("returns".to_string(), |e| format!("panics ({e})")),
                            b.as_ref().err().map_or("returns".to_string(), |e| format!("panics ({e})"))
                        ),
                        idx,
                        J::obj().set("haystack", crate::json::bytes_j(hay)).set("case", case.to_json(40, 200)),
                    );
                    continue;
                }
            };
            if gc != gb {
                ctx.rep.violation(
                    "differential",
                    format!("{} ({}): char-wise and byte-wise automata built from the same patterns disagree", m.name(), kind_name(kind)),
                    idx,
                    mismatch_detail(&case, &spec_c, hay, m, &gc, &gb).set("note", J::s("got = char-wise, expected = byte-wise")),
                );
                continue;
            }
            if gc != exp {
                // both variants agree with each other but not with the reference model: C08 itself
                // holds for this case; the disagreement is C01-C05's business (recorded only)
                ctx.rep.count("agreeing_results_that_differ_from_the_model", 1);
            }
            for &(s, e, _) in &gc {
                if !hs.is_char_boundary(s) || !hs.is_char_boundary(e) {
                    ctx.rep.violation(
                        "char-boundary",
                        format!("{}: char-wise offset ({s},{e}) is not on a character boundary", m.name()),
                        idx,
                        mismatch_detail(&case, &spec_c, hay, m, &gc, &exp),
                    );
                    break;
                }
                if hs[s..e].chars().any(|c| c.len_utf8() >= 2) {
                    multibyte_in_match = true;
                }
            }
            if gc.len() >= 2 {
                for w in gc.windows(2) {
                    if w[0].1 <= w[1].0 && hs[w[0].1..w[1].0].chars().any(|c| !pat_chars.contains(&c)) {
                        unmapped_between = true;
                    }
                }
            }
        }
        if hs.chars().any(|c| c > max_pat_char) {
            ctx.rep.count("haystacks_with_code_point_above_every_pattern_char", 1);
        }
    }
    if multibyte_in_match {
        ctx.rep.count("cases_with_multibyte_char_inside_a_match", 1);
    }
    if unmapped_between {
        ctx.rep.count("cases_with_foreign_char_between_matches", 1);
    }
    if multibyte_in_match || unmapped_between {
        ctx.rep.nontrivial.insert(case.digest());
        ctx.rep.sample(|| case.to_json(8, 100));
    }
    ctx.rep.note("kinds", kind_name(kind));
    ctx.rep.note("workloads", case.workload);
}

// -------------------------------------------------------------------------------------------- C11

/// 7 x 7 x 3 parameter combinations of the dense block-fill sweep
pub const DENSE_SWEEP: usize = 147;

pub fn nfb_list(ctx: &Ctx, rng: &mut Rng) -> Vec<u32> {
    if ctx.slow() {
        return vec![1, 2];
    }
    match ctx.tier {
        Tier::Quick => {
            let mut v = vec![1, 2, 3, 4, 5, 8, 15, 16, 17, 32, 33, 64];
            v.push(1 + rng.below(64) as u32);
            v
        }
        Tier::Thorough => {
            if rng.chance(1, 4) {
                (1..=64).collect()
            } else {
                let mut v = vec![1, 2, 3, 4, 5, 8, 15, 16, 17, 32, 33, 64];
                for _ in 0..6 {
                    v.push(1 + rng.below(64) as u32);
                }
                v
            }
        }
    }
}

pub fn run_c11(ctx: &mut Ctx, idx: u64) {
    let mut rng = Rng::for_case(ctx.seed, "C11", idx);
    let variant = if rng.chance(1, 2) { Variant::Bytewise } else { Variant::Charwise };
    let kind = gen::any_kind(&mut rng);
    // the first DENSE_SWEEP indices walk systematically through dense two-level layouts around
    // exact block fills (r single bytes x hub with c children x extras), see gen::dense_case
    let case = if !ctx.slow() && (idx as usize) < DENSE_SWEEP {
        let i = idx as usize;
        let (r, c, e) = (250 + i % 7, 250 + (i / 7) % 7, (i / 49) % 3);
        gen::dense_case(&mut rng, kind, r, c, e, None)
    } else if ctx.slow() {
        gen::small_case(&mut rng, variant, kind, true)
    } else if rng.chance(1, 6) {
        // long chains of single-child states fill blocks up to their last few slots
        gen::long_case(&mut rng, variant, kind)
    } else if rng.chance(1, 4) {
        gen::random_chain_case(&mut rng, kind)
    } else if rng.chance(1, 3) {
        gen::dense_random(&mut rng, kind)
    } else if rng.chance(1, 12) {
        gen::hub_case(&mut rng, kind)
    } else if rng.chance(3, 4) {
        let cap = match (ctx.mode, ctx.tier) {
            (Mode::Native, Tier::Thorough) => 10_000,
            (Mode::Native, Tier::Quick) => 3000,
            _ => 1000,
        };
        gen::large_case(&mut rng, variant, kind, cap)
    } else {
        gen::small_case(&mut rng, variant, kind, false)
    };
    if ctx.replay {
        println!("case {idx}: {}", case.to_json(100, 1000).to_string());
    }
    let base_spec = Spec { nfb: None, ..case.spec };
    let base = match build_case(&case, base_spec) {
        Ok(p) => p,
        Err(e) => {
            ctx.rep.count("build_failed_on_valid_input", 1);
            ctx.rep.note("build_errors", &format!("case {idx} (default setting): {e}"));
            return;
        }
    };
    let ns = base.num_states();
    let pt = PatTrie::new(&case.patterns);
    // baseline answers (also checked against the model so that a common-mode error is not hidden)
    let mut baseline: Vec<Vec<Vec<(usize, usize, u32)>>> = Vec::new();
    for hay in &case.haystacks {
        let occ = pt.occurrences(hay);
        let mut per_m = Vec::new();
        for &m in Method::for_kind(kind) {
            let got = match base.try_search(m, hay, usize::MAX, loose_budget(hay.len(), ns)) {
                Ok(x) => x.0,
                Err(e) => {
                    // the default-setting automaton itself panics: not C11's statement
                    ctx.rep.count("default_setting_search_panicked", 1);
                    ctx.rep.note("library_panics", &format!("case {idx}: {e}"));
                    return;
                }
            };
            let exp = to_m(&model(m, kind, &occ), &case.values);
            if got != exp {
                // the default-setting automaton itself disagrees with the model: not C11's statement
                // (C01-C05 decide it); the settings are still compared with the default
                ctx.rep.count("default_setting_differs_from_model", 1);
            }
            per_m.push(got);
        }
        baseline.push(per_m);
    }
    let base_sr = structure(ctx, &base, None);
    let base_closed = base_sr.closure.is_empty() && base_sr.ranking.is_empty();
    let mut any_evicted = false;
    for n in nfb_list(ctx, &mut rng) {
        let spec = Spec { nfb: Some(n), ..case.spec };
        ctx.rep.evaluations += 1;
        let p = match build_case(&case, spec) {
            Ok(p) => p,
            Err(e) => {
                // construction is allowed to fail for some settings ("for which construction
                // succeeds"); within the documented limits it does not, so record it
                ctx.rep.count("builds_rejected_for_setting", 1);
                ctx.rep.note("build_errors", &format!("case {idx} nfb={n}: {e}"));
                continue;
            }
        };
        let (_, evicted) = layout_stats(&mut ctx.rep, &p, &spec);
        any_evicted |= evicted;
        ctx.rep.note("num_free_blocks_values", &format!("{n:02}"));
        for (hi, hay) in case.haystacks.iter().enumerate() {
            for (mi, &m) in Method::for_kind(kind).iter().enumerate() {
                let exp = &baseline[hi][mi];
                let got = match p.try_search(m, hay, exp.len() + 1, loose_budget(hay.len(), ns)) {
                    Ok(x) => x.0,
                    Err(e) => {
                        ctx.rep.violation(
                            "setting-vs-default",
                            format!("{} with num_free_blocks({n}) panics ({e}) where the default setting returns", m.name()),
                            idx,
                            mismatch_detail(&case, &spec, hay, m, &[], exp),
                        );
                        continue;
                    }
                };
                ctx.rep.count("searches_compared", 1);
                ctx.rep.count("matches_compared", exp.len() as u64);
                if &got != exp {
                    ctx.rep.violation(
                        "setting-vs-default",
                        format!("{} with num_free_blocks({n}) differs from the default setting ({}, {})", m.name(), if variant == Variant::Bytewise { "byte-wise" } else { "char-wise" }, kind_name(kind)),
                        idx,
                        mismatch_detail(&case, &spec, hay, m, &got, exp),
                    );
                }
            }
        }
        // "the other properties continue to hold": memory safety (closure), termination (ranking),
        // state count; and for *every* haystack the same observable behaviour as the default-setting
        // automaton (product walk of the two real automata)
        let sr = structure(ctx, &p, None);
        structure_stats(&mut ctx.rep, &sr);
        let mut msgs: Vec<String> = Vec::new();
        msgs.extend(sr.closure.iter().map(|s| format!("memory safety: {s}")));
        msgs.extend(sr.ranking.iter().map(|s| format!("termination: {s}")));
        if p.num_states() != ns {
            msgs.push(format!("num_states() = {} with this setting, {} with the default", p.num_states(), ns));
        }
        if msgs.is_empty() && base_closed {
            let pr = crate::monitor::check_pair_equivalence(&p, &base, ctx.transition_cap());
            ctx.rep.count("automaton_pairs_walked", 1);
            ctx.rep.count("product_pairs_validated", pr.pairs as u64);
            ctx.rep.count("dfa_transitions_validated", pr.transitions);
            if pr.sampled {
                ctx.rep.count("automaton_pairs_walked_with_sampled_symbols", 1);
            }
            msgs.extend(pr.differences.iter().map(|s| format!("behaviour differs from the default setting: {s}")));
        }
        if !msgs.is_empty() {
            ctx.rep.violation(
                "setting-structure",
                format!("num_free_blocks({n}): {}", msgs[0]),
                idx,
                struct_detail(&case, &spec, &msgs),
            );
        }
    }
    if any_evicted {
        ctx.rep.nontrivial.insert(case.digest());
        ctx.rep.sample(|| case.to_json(6, 80));
    }
    ctx.rep.note("kinds", kind_name(kind));
    ctx.rep.note("workloads", case.workload);
}
