#!/usr/bin/env python3
"""Runs every seeded change against every check (quick tier) and writes seeded/MATRIX.md.
usage: matrix.py [--jobs 2] [--only name1,name2] [--props C01,...] [--tier quick] [--seed 1]"""
import json, os, subprocess, sys, glob
from concurrent.futures import ThreadPoolExecutor
V = os.path.dirname(os.path.dirname(os.path.abspath(__file__)))
SD = os.environ.get("SEED_DIR", "seeded")
a = sys.argv[1:]
def opt(n, d):
    return a[a.index(n) + 1] if n in a else d
jobs = int(opt("--jobs", "2"))
tier = opt("--tier", "quick")
seed = opt("--seed", "1")
props = opt("--props", ",".join("C%02d" % i for i in range(1, 17)))
names = sorted(os.path.basename(os.path.dirname(p)) for p in glob.glob(V + "/" + SD + "/*/meta.json"))
if "--only" in a:
    names = opt("--only", "").split(",")
def one(n):
    p = subprocess.run([sys.executable, V + "/tools/seed.py", "run", n, "--tier", tier, "--seed", seed, "--props", props], stdout=subprocess.PIPE, stderr=subprocess.STDOUT, text=True)
    print(p.stdout, flush=True)
if "--report-only" not in a:
    with ThreadPoolExecutor(max_workers=jobs) as ex:
        list(ex.map(one, names))
# report
allp = ["C%02d" % i for i in range(1, 17)]
rows = []
for n in sorted(os.path.basename(os.path.dirname(p)) for p in glob.glob(V + "/" + SD + "/*/meta.json")):
    m = json.load(open(V + "/" + SD + "/%s/meta.json" % n))
    res = {}
    runs = m.get("checks_run", {})
    # scaled matrix runs first, then full-budget runs of the final code (key suffix /final) override
    for k in sorted(runs, key=lambda k: (k.endswith("/final"), "scale" not in k)):
        if k.startswith("quick/") and ("scale" in k or k.endswith("/final")):
            for p, x in runs[k].items():
                if not p.startswith('_'):
                    res[p] = dict(x, full=k.endswith("/final"))
    cells = []
    for p in allp:
        x = res.get(p)
        c = "·" if x is None else ("**V**" if x["exit"] == 1 else ("inc" if x["exit"] == 2 else "–"))
        cells.append(c + ("ᶠ" if x is not None and x.get("full") else ""))
    rows.append("| %s | %s | %s |" % (n, m["breaks_property"], " | ".join(cells)))
with open(V + "/" + SD + "/MATRIX.md", "w") as f:
    f.write(("# %s x checks (quick tier)\n\n" % ("Seeded changes" if SD == "seeded" else "Behaviour-preserving refactorings")) +
            "**V** = check exits 1 with a VIOLATION line, – = check exits 0 (held), inc = inconclusive (exit 2), · = not run.\n"
            "Cells come from runs with a fraction of the quick budget (seeded/: a fifth, refactors/: three tenths) and the dbg/rel variants only (`VERIF_SCALE=… VERIF_ONLY_DBG=1`);\n"
            "cells marked ᶠ were re-run with the full quick budget of the final code (the scaled budget of some checks, C10 in\n"
            "particular, does not reach their later workloads). An `inc` in a column other than the target usually means that the\n"
            "changed builder rejected or panicked on valid collections, which only C10 (and C08) treat as a refuting event.\n\n")
    f.write("| change | breaks | " + " | ".join(allp) + " |\n|---|---|" + "---|" * 16 + "\n")
    f.write("\n".join(rows) + "\n")
print(open(V + "/" + SD + "/MATRIX.md").read())
