#!/usr/bin/env python3
"""Management of seeded defects (mutations) used to test the checks.

  seed.py confirm <worktree> <outdir>         confirm a sub-agent's deliverable in its scratch worktree:
                                              patch applies to clean HEAD, builds (also with hooks), the
                                              full suite passes with it, the demo fails with it and passes without
  seed.py import  <outdir> <name> <property>  copy patch/demo/notes to /verif/seeded/<name>/ and write meta.json
  seed.py run     <name> [--tier quick] [--props C01,C02] [--seed N]
                                              apply the patch to /repo, run the checks, ALWAYS revert, record results
"""
import json, os, subprocess, sys, shutil, time

VERIF = os.path.dirname(os.path.dirname(os.path.abspath(__file__)))
# SEED_DIR=refactors: the same tooling manages behaviour-preserving refactorings (expected: every check stays silent)
SEEDED = os.environ.get("SEED_DIR", "seeded")
REPO = "/repo"
ENV = dict(os.environ, CARGO_NET_OFFLINE="true", CARGO_TERM_COLOR="never")


def sh(cmd, cwd, env=None, timeout=3600):
    p = subprocess.run(cmd, cwd=cwd, env=env or ENV, stdout=subprocess.PIPE, stderr=subprocess.STDOUT, text=True, timeout=timeout)
    return p.returncode, p.stdout


def confirm(wt, out):
    env = dict(ENV, CARGO_TARGET_DIR=os.path.join(wt, "target"))
    res = {"worktree": wt, "out": out}
    patch = os.path.join(out, "patch.diff")
    demo_rs = os.path.join(out, "demo.rs")
    demo_sh = os.path.join(out, "demo.sh")
    sh(["git", "checkout", "--", "."], wt)
    for f in ("tests/verif_demo.rs",):
        try:
            os.remove(os.path.join(wt, f))
        except FileNotFoundError:
            pass
    rc, o = sh(["git", "apply", "--check", patch], wt)
    res["applies_to_clean_head"] = rc == 0
    if rc != 0:
        res["error"] = o[-800:]
        return res
    rc, o = sh(["git", "-C", REPO, "apply", "--check", patch], REPO)
    res["applies_to_repo_head"] = rc == 0

    def run_demo():
        if os.path.exists(demo_rs):
            shutil.copy(demo_rs, os.path.join(wt, "tests", "verif_demo.rs"))
            rc, o = sh(["cargo", "test", "--offline", "--test", "verif_demo"], wt, env)
            os.remove(os.path.join(wt, "tests", "verif_demo.rs"))
            return rc, o
        else:
            rcs, outs = [], []
            for prof, args, d in (("dev", [], "debug"), ("release", ["--release"], "release")):
                rc, o = sh(["cargo", "build", "--offline", "-p", "daacfind"] + args, wt, env)
                if rc != 0:
                    return 99, o
                rc, o = sh(["sh", demo_sh, os.path.join(wt, "target", d, "daacfind")], wt, env)
                rcs.append(rc)
                outs.append(o)
            return (0 if all(r == 0 for r in rcs) else 1), "\n".join(outs)

    # without the change
    rc, o = run_demo()
    res["demo_passes_without_change"] = rc == 0
    res["demo_clean_tail"] = o[-300:]
    # with the change
    sh(["git", "apply", patch], wt)
    rc, o = sh(["cargo", "build", "--offline", "--features", "daachorse_verif"], wt, env)
    res["builds_with_hooks"] = rc == 0
    rc, o = sh(["cargo", "test", "--workspace", "--offline"], wt, env)
    res["suite_passes_with_change"] = rc == 0
    res["suite_summary"] = [l for l in o.splitlines() if l.startswith("test result")]
    rc, o = run_demo()
    res["demo_fails_with_change"] = rc != 0
    res["demo_mutant_tail"] = o[-600:]
    sh(["git", "checkout", "--", "."], wt)
    res["confirmed"] = all(res.get(k) for k in ("applies_to_clean_head", "applies_to_repo_head", "demo_passes_without_change", "builds_with_hooks", "suite_passes_with_change", "demo_fails_with_change"))
    return res


def do_import(out, name, prop):
    d = os.path.join(VERIF, SEEDED, name)
    os.makedirs(d, exist_ok=True)
    for f in ("patch.diff", "demo.rs", "demo.sh", "notes.md"):
        if os.path.exists(os.path.join(out, f)):
            shutil.copy(os.path.join(out, f), os.path.join(d, f))
    conf = {}
    cf = os.path.join(out, "confirm.json")
    if os.path.exists(cf):
        conf = json.load(open(cf))
    meta = {"id": name, "breaks_property": prop, "origin": "independent sub-agent given only the property text and a scratch worktree",
            "confirmed_by_me": conf, "needs_to_manifest": "see notes.md", "checks_run": {}}
    mp = os.path.join(d, "meta.json")
    if os.path.exists(mp):
        old = json.load(open(mp))
        meta["checks_run"] = old.get("checks_run", {})
        meta["needs_to_manifest"] = old.get("needs_to_manifest", meta["needs_to_manifest"])
    json.dump(meta, open(mp, "w"), indent=1)
    print("imported", d)


def run(name, tier, props, seed):
    """Checks a seeded change in its own scratch worktree of /repo (VERIF_REPO), so /repo itself,
    /verif/evidence and the regular build output are never touched; everything is removed afterwards."""
    import hashlib
    d = os.path.join(VERIF, SEEDED, name)
    patch = os.path.join(d, "patch.diff")
    wt = "/tmp/mw/%s" % name
    sh(["git", "worktree", "remove", "--force", wt], REPO)
    shutil.rmtree(wt, ignore_errors=True)
    os.makedirs("/tmp/mw", exist_ok=True)
    rc, o = sh(["git", "worktree", "add", "--detach", wt, "HEAD"], REPO)
    if rc != 0:
        print("cannot create worktree:\n" + o)
        return 2
    alt = os.path.join(VERIF, "target", "alt", hashlib.sha1(wt.encode()).hexdigest()[:10])
    results = {}
    try:
        rc, o = sh(["git", "apply", patch], wt)
        if rc != 0:
            # the patch was written against an older commit of /repo: try a 3-way merge, then fall
            # back to the commit the patch was made for (recorded in the results)
            rc, o = sh(["git", "apply", "--3way", patch], wt)
            if rc == 0:
                results["_applied"] = "3-way merge onto HEAD"
            else:
                sh(["git", "reset", "--hard", "-q"], wt)
                base = json.load(open(os.path.join(d, "meta.json"))).get("base_commit", "c8329aa")
                sh(["git", "checkout", "-q", "--detach", base], wt)
                rc, o = sh(["git", "apply", patch], wt)
                results["_applied"] = "on base commit " + base
                if rc != 0:
                    print("patch does not apply:\n" + o)
                    return 2
        for p in props:
            t0 = time.time()
            env = dict(os.environ, VERIF_SEED=str(seed), VERIF_REPO=wt)
            key_suffix = ""
            if os.environ.get("VERIF_SCALE"):
                key_suffix = "/scale" + os.environ["VERIF_SCALE"]
            pr = subprocess.run([os.path.join(VERIF, "check"), p, "--tier", tier], cwd=VERIF, env=env, stdout=subprocess.PIPE, stderr=subprocess.STDOUT, text=True)
            lines = pr.stdout.splitlines()
            viol = [l for l in lines if l.startswith("VIOLATION")]
            first = [l for l in lines if l.startswith("violation:") or l.startswith("--- worker")][:2]
            results[p] = {"exit": pr.returncode, "violations": len(viol), "first": [f[:400] for f in first], "wall_s": round(time.time() - t0, 1),
                          "inconclusive": [l[:300] for l in lines if l.startswith("INCONCLUSIVE")][:2]}
            print("%s %s: exit=%d violations=%d %s" % (name, p, pr.returncode, len(viol), (first[0][:200] if first else "")), flush=True)
    finally:
        sh(["git", "worktree", "remove", "--force", wt], REPO)
        shutil.rmtree(wt, ignore_errors=True)
        shutil.rmtree(alt, ignore_errors=True)
    mp = os.path.join(d, "meta.json")
    meta = json.load(open(mp))
    suffix = ("/scale" + os.environ["VERIF_SCALE"]) if os.environ.get("VERIF_SCALE") else ""
    suffix += os.environ.get("SEED_KEY_SUFFIX", "")
    meta.setdefault("checks_run", {}).setdefault("%s/seed%d%s" % (tier, seed, suffix), {}).update(results)
    json.dump(meta, open(mp, "w"), indent=1)
    return 0


def main():
    a = sys.argv[1:]
    if not a:
        print(__doc__)
        return 2
    if a[0] == "confirm":
        r = confirm(a[1], a[2])
        json.dump(r, open(os.path.join(a[2], "confirm.json"), "w"), indent=1)
        print(json.dumps({k: v for k, v in r.items() if k not in ("demo_clean_tail", "demo_mutant_tail")}, indent=1))
        return 0 if r.get("confirmed") else 1
    if a[0] == "import":
        do_import(a[1], a[2], a[3])
        return 0
    if a[0] == "run":
        name = a[1]
        tier = a[a.index("--tier") + 1] if "--tier" in a else "quick"
        seed = int(a[a.index("--seed") + 1]) if "--seed" in a else 1
        meta = json.load(open(os.path.join(VERIF, SEEDED, name, "meta.json")))
        props = a[a.index("--props") + 1].split(",") if "--props" in a else [meta["breaks_property"]]
        return run(name, tier, props, seed)
    print(__doc__)
    return 2


if __name__ == "__main__":
    sys.exit(main())
