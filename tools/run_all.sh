#!/bin/sh
# run_all.sh [quick|thorough] [seed]  — runs every check on /repo and validates manifest + evidence
tier=${1:-quick}; seed=${2:-1}
cd "$(dirname "$0")/.."
fail=0
for i in 01 02 03 04 05 06 07 08 09 10 11 12 13 14 15 16; do
  s=$(date +%s)
  out=$(VERIF_SEED=$seed ./check C$i --tier $tier 2>&1); rc=$?
  e=$(date +%s)
  echo "C$i rc=$rc $((e-s))s $(echo "$out" | grep -E '^(HELD|VIOLATION|INCONCLUSIVE|KNOWN-FINDING)' | cut -c1-150 | tr '\n' ' ')"
  [ $rc -ne 0 ] && fail=1
done
python3-vt lib/validate.py | tail -20
exit $fail
