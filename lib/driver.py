#!/usr/bin/env python3
"""Driver for the daachorse runtime-monitoring checks (see /verif/DESIGN.md).

  ./check <ID> [--tier quick|thorough] [--seed N]      run the check for one property
  ./check <ID> --replay <replay.json>                  re-run one recorded case verbosely
  ./check --setup                                      pre-build the variants

Exit codes: 0 held (KNOWN-FINDING lines may be printed), 1 VIOLATION, 2 INCONCLUSIVE.
"""
import json, os, sys, time, subprocess, signal, shutil, hashlib, re
from concurrent.futures import ThreadPoolExecutor

VERIF = os.path.dirname(os.path.dirname(os.path.abspath(__file__)))
REPO = os.path.abspath(os.environ.get("VERIF_REPO", "/repo"))
HARNESS = os.path.join(VERIF, "harness")
TARGET = os.path.join(VERIF, "target")
OUT = VERIF  # evidence/, replays/, runs/ live here
if REPO != "/repo":
    # Mutation trials only (tools/seed.py): check a scratch copy of the repository without touching
    # /repo, /verif/evidence or the regular build output. The registered commands never set VERIF_REPO.
    _alt = os.path.join(VERIF, "target", "alt", hashlib.sha1(REPO.encode()).hexdigest()[:10])
    os.makedirs(_alt, exist_ok=True)
    _h = os.path.join(_alt, "harness")
    shutil.rmtree(_h, ignore_errors=True)
    shutil.copytree(HARNESS, _h, ignore=shutil.ignore_patterns("target", "corpus", "artifacts"))
    for _f in ("Cargo.toml", os.path.join("fuzz", "Cargo.toml")):
        _p = os.path.join(_h, _f)
        if os.path.exists(_p):
            _t = open(_p).read().replace('path = "/repo"', 'path = "%s"' % REPO)
            open(_p, "w").write(_t)
    HARNESS, TARGET, OUT = _h, os.path.join(_alt, "target"), _alt
NCPU = os.cpu_count() or 8
HOST = "x86_64-unknown-linux-gnu"

PROPS = ["C%02d" % i for i in range(1, 17)]

BASE_ENV = dict(os.environ)
BASE_ENV.update({"CARGO_NET_OFFLINE": "true", "CARGO_TERM_COLOR": "never", "RUST_BACKTRACE": "0"})
for k in ("RUSTFLAGS", "MIRIFLAGS", "CARGO_TARGET_DIR", "RUSTC_WRAPPER"):
    BASE_ENV.pop(k, None)


def log(msg):
    print(msg, flush=True)


# ------------------------------------------------------------------------------------------ builds

class BuildError(Exception):
    pass


def _run_build(cmd, env, what, cwd=HARNESS):
    t0 = time.time()
    p = subprocess.run(cmd, cwd=cwd, env=env, stdout=subprocess.PIPE, stderr=subprocess.STDOUT, text=True)
    if p.returncode != 0:
        # one retry: concurrent cargo invocations occasionally trip over each other's locks
        time.sleep(3)
        p = subprocess.run(cmd, cwd=cwd, env=env, stdout=subprocess.PIPE, stderr=subprocess.STDOUT, text=True)
    if p.returncode != 0:
        tail = "\n".join(p.stdout.splitlines()[-40:])
        raise BuildError("build of %s failed (exit %d):\n%s" % (what, p.returncode, tail))
    return time.time() - t0


def build_variant(variant):
    """Builds the harness (and with it the library from /repo's working tree). Returns argv prefix."""
    env = dict(BASE_ENV)
    env["CARGO_TARGET_DIR"] = os.path.join(TARGET, variant)
    if variant == "dbg":
        _run_build(["cargo", "build", "--release", "--offline"], env, "dbg harness")
        return [os.path.join(TARGET, "dbg", "release", "dv")]
    if variant == "rel":
        _run_build(["cargo", "build", "--profile", "rel", "--offline"], env, "rel harness")
        return [os.path.join(TARGET, "rel", "rel", "dv")]
    if variant == "asan":
        env["RUSTFLAGS"] = "-Zsanitizer=address -Cforce-frame-pointers=yes"
        _run_build(["cargo", "+nightly", "build", "--profile", "rel", "--offline", "--target", HOST], env, "asan harness")
        return [os.path.join(TARGET, "asan", HOST, "rel", "dv")]
    if variant == "tsan":
        env["RUSTFLAGS"] = "-Zsanitizer=thread"
        _run_build(["cargo", "+nightly", "build", "--profile", "rel", "--offline", "-Zbuild-std", "--target", HOST], env, "tsan harness")
        return [os.path.join(TARGET, "tsan", HOST, "rel", "dv")]
    if variant == "miri":
        env["MIRIFLAGS"] = "-Zmiri-disable-isolation"
        # builds the miri sysroot and the harness once; workers then call `cargo miri run`
        _run_build(["cargo", "+nightly", "miri", "run", "--offline", "--", "selftest"], env, "miri harness")
        return ["cargo", "+nightly", "miri", "run", "--offline", "-q", "--"]
    if variant == "fuzz":
        env["CARGO_TARGET_DIR"] = os.path.join(TARGET, "fuzz")
        _run_build(["cargo", "+nightly", "fuzz", "build", "monitors"], env, "libFuzzer target")
        return [os.path.join(TARGET, "fuzz", HOST, "release", "monitors")]
    raise BuildError("unknown variant " + variant)


def variant_env(variant):
    env = dict(BASE_ENV)
    if variant == "miri":
        env["CARGO_TARGET_DIR"] = os.path.join(TARGET, "miri")
        env["MIRIFLAGS"] = "-Zmiri-disable-isolation"
    if variant == "asan":
        env["ASAN_OPTIONS"] = "halt_on_error=1:abort_on_error=0:detect_leaks=1:exitcode=97:symbolize=1"
        sym = shutil.which("llvm-symbolizer") or shutil.which("llvm-symbolizer-14")
        if sym:
            env["ASAN_SYMBOLIZER_PATH"] = sym
    if variant == "tsan":
        env["TSAN_OPTIONS"] = "halt_on_error=1:exitcode=66:second_deadlock_stack=1"
    return env


def build_cli():
    """Builds the real daacfind binaries (dev and release) from /repo's working tree."""
    env = dict(BASE_ENV)
    env["CARGO_TARGET_DIR"] = os.path.join(TARGET, "cli")
    _run_build(["cargo", "build", "--offline", "-p", "daacfind"], env, "daacfind (dev)", cwd=REPO)
    _run_build(["cargo", "build", "--offline", "-p", "daacfind", "--release"], env, "daacfind (release)", cwd=REPO)
    return {"dev": os.path.join(TARGET, "cli", "debug", "daacfind"), "release": os.path.join(TARGET, "cli", "release", "daacfind")}


# ------------------------------------------------------------------------------------------ plans

def plan(prop, tier):
    """List of worker groups: (variant, mode, nprocs, extra args)."""
    q = tier == "quick"
    g = []
    if prop == "C07":
        g.append(("dbg", "native", 12 if q else 16, []))
        g.append(("asan", "asan", 4 if q else 8, []))
        g.append(("miri", "miri", 8 if q else 16, ["--cases", "48" if q else "384"]))
    elif prop == "C09":
        g.append(("dbg", "native", 16, []))
        if not q:
            g.append(("asan", "asan", 8, []))
            g.append(("miri", "miri", 8, ["--cases", "32"]))
    elif prop == "C10":
        g.append(("dbg", "native", 8, []))
        g.append(("rel", "native", 8, []))
    elif prop == "C14":
        g.append(("dbg", "native", 8, []))
        # a race that does not change a result is invisible to the result monitor: ThreadSanitizer
        # observes the concurrent histories in both tiers
        g.append(("tsan", "tsan", 4 if q else 8, []))
        if not q:
            g.append(("miri", "miri", 6, ["--cases", "6"]))
    elif prop in ("C01", "C02", "C03", "C04", "C05", "C06", "C08", "C11", "C12", "C13", "C15"):
        g.append(("dbg", "native", 16, []))
        if not q and prop in ("C01", "C03", "C06", "C08", "C11", "C12"):
            g.append(("asan", "asan", 8, []))
        if not q and prop in ("C08", "C12"):
            g.append(("miri", "miri", 4, ["--cases", "16"]))
    return g


FLOORS = {  # minimum distinct non-trivial cases for a "held" verdict (else inconclusive)
    "quick": 50, "thorough": 500,
}
FLOOR_OVERRIDE = {("C11", "quick"): 20, ("C11", "thorough"): 100, ("C16", "quick"): 30, ("C16", "thorough"): 300}

RULES = {
    "C01": "cases drawn from W1 tiny alphabets / W2 binary incl. 0x00,0x01,0xFF / W3 block-spanning sets with num_free_blocks in {1..64} / W5 UTF-8 of all widths / W9 adversarial / fixed regression corpus, for both variants and both constructors; a case is non-trivial if some end position carries >= 2 matches, or the array spans >= 2 blocks, or a pattern contains byte 0x00/0x01; distinct = distinct digest of (spec, patterns, values, haystacks)",
    "C02": "same workloads as C01 on find_iter / find_iter_from_iter; non-trivial if the non-overlapping result skips at least one occurrence (an overlapping or earlier-starting occurrence is suppressed) or the array spans >= 2 blocks",
    "C03": "W1/W2/W3/W5 + W4 bounded-exhaustive haystacks, each pattern set in several registration orders (W6), LeftmostLongest; non-trivial if some start position has >= 2 candidate patterns or a candidate is superseded",
    "C04": "same as C03 for LeftmostFirst over ordered sequences, plus the shadow-removal metamorphic monitor; non-trivial if the sequence contains a shadowed pattern, or a shorter pattern registered after a longer one that it prefixes with both occurring at one start",
    "C05": "same workloads as C01 on find_overlapping_no_suffix_iter(_from_iter); non-trivial if a reported match overlaps the previous reported match or some end position has >= 2 occurrences",
    "C06": "15 value types (u8..u128,i8..i128,usize,isize,Empty,3-byte and 9-byte user structs) x {build, build_with_values} x 3 kinds x 2 variants x {fresh, after round trip}, per-match checks on every search method; non-trivial if >= 2 patterns share a value, or a value is zero/MIN/MAX, or the type is not u32 (and at least one match was checked)",
    "C07": "closure monitor on every fresh and restored automaton + every search method executed under the build's sanitizer (std unsafe-precondition checks in dbg, ASan, Miri) on stitched and hostile haystacks; non-trivial if the array spans >= 2 blocks or the haystacks mix >= 2 UTF-8 widths",
    "C08": "UTF-8 cases (W5 small/medium, W3 large char alphabets) searched by a char-wise and a byte-wise automaton with independent builder settings, all methods/kinds, model as third party; non-trivial if a multi-byte character lies inside a reported match or a character foreign to the patterns separates two matches",
    "C09": "round trip of automata over 15 value types incl. user-defined fixed-width ones, all kinds, both variants, random trailing bytes; non-trivial if kind != Standard, or V != u32, or trailing bytes are non-empty",
    "C10": "W8: valid sets with injected defects (empty pattern, exact repeat, repeat of shadowed pattern, too many patterns for the index type, empty collection) at varied positions, all kinds/variants/entry points, index types u8,i8,u16,u32,usize,i64,Empty, num_free_blocks 1..=64, in a debug-assertion build and a plain release build; non-trivial if >= 3 patterns and (a defect was injected or the array has >= 2 byte-wise blocks)",
    "C11": "block-spanning pattern sets built with the default setting and with num_free_blocks in {1,2,3,4,5,8,15,16,17,32,33,64,+random} (thorough: all of 1..=64 for a quarter of the sets); a case is non-trivial only if for at least one setting the array really had more blocks than num_free_blocks (eviction and mid-build CHECK sanitising executed)",
    "C12": "instrumented source iterators (plain and streaming with refill events) under the three *_from_iter methods of both variants; non-trivial if the history has >= 2 matches and the first one ends strictly before the end of the haystack",
    "C13": "ranking monitor on every automaton + step counter inside the real transition loops on W9 adversarial and other workloads; non-trivial if the observed steps/bytes ratio reaches 1.5 or a fail chain of length >= 3 exists",
    "C14": "build-twice, permutations (Standard/LeftmostLongest, with values), repeated searches, and concurrent histories of 2..16 threads on one shared automaton; non-trivial if a non-identity permutation of >= 3 patterns was compared or at least one pair of operations of different threads overlapped in time",
    "C15": "state-count oracle + reachability through the automaton's own child function + trie isomorphism + size lower bounds; non-trivial if the sequence has a shadowed pattern (LeftmostFirst) or the array spans >= 2 blocks",
    "C16": "real daacfind binaries (dev and release) on generated pattern lists (-p/-f, UTF-8, spaces/tabs) and inputs (stdin or 1-3 files) with flag combinations; non-trivial if the invocation has >= 1 printed and >= 1 suppressed line, or is a colour run with overlapping/nested occurrences",
}

ASSUMPTIONS_COMMON = [
    "verdict is 'held on the executions observed', not a proof; the quantifier over pattern sets is sampled",
    "reference models (brute-force occurrence search + selection rules) are written from the property statement and are trusted",
    "hooks (cargo feature daachorse_verif) expose the implementation's own child/transition functions; the monitors trust them to be the code the scan loops run",
]

# ------------------------------------------------------------------------------------------ workers

def run_worker(argv, env, outdir, tag, timeout):
    """Runs one shard. A shard that gave up on a case (per-case watchdog, exit 98) is resumed behind
    that case up to 3 times, so that one hanging case does not hide what the later cases show."""
    parts = []
    cur_argv, cur_tag = list(argv), tag
    for attempt in range(4):
        w = _run_worker_once(cur_argv, env, outdir, cur_tag, timeout)
        parts.append(w)
        if w["rc"] != 98 or w["last_case"] is None or attempt == 3:
            break
        try:
            shard = int(argv[argv.index("--shard") + 1])
            nsh = int(argv[argv.index("--nshards") + 1])
        except (ValueError, IndexError):
            break
        cur_argv = [a for a in argv] + ["--first", str(w["last_case"] + nsh - shard)]
        cur_tag = "%s-r%d" % (tag, attempt + 1)
    if len(parts) == 1:
        return parts[0]
    # merge: the shard counts as abnormal (first abnormal part decides), reports are combined
    first_bad = next((p for p in parts if not (p["rc"] == 0 and p["finished"])), parts[-1])
    merged = dict(first_bad)
    reps = [p["report"] for p in parts if p["report"] is not None]
    if reps:
        m = merge(reps)
        merged["report"] = {"evaluations": m["evaluations"], "nontrivial": sorted(m["nontrivial"]), "counters": m["counters"], "maxima": m["maxima"],
                            "sets": {k: sorted(v) for k, v in m["sets"].items()}, "samples": m["samples"], "violations": m["violations"], "known": m["known"]}
    merged["stderr"] = "\n".join(p["stderr"][-3000:] for p in parts)
    merged["wall"] = sum(p["wall"] for p in parts)
    return merged


def _run_worker_once(argv, env, outdir, tag, timeout):
    out = os.path.join(outdir, tag + ".json")
    journal = os.path.join(outdir, tag + ".journal")
    errf = os.path.join(outdir, tag + ".stderr")
    cmd = argv + ["--out", out, "--journal", journal]
    t0 = time.time()
    with open(errf, "wb") as ef:
        try:
            p = subprocess.Popen(cmd, cwd=HARNESS, env=env, stdout=ef, stderr=subprocess.STDOUT, start_new_session=True)
            try:
                rc = p.wait(timeout=timeout)
                timed_out = False
            except subprocess.TimeoutExpired:
                try:
                    os.killpg(p.pid, signal.SIGKILL)
                except Exception:
                    p.kill()
                p.wait()
                rc = -9
                timed_out = True
        except OSError as e:
            return {"tag": tag, "rc": 127, "timed_out": False, "report": None, "stderr": str(e), "last_case": None, "finished": False, "wall": 0}
    report = None
    if os.path.exists(out):
        try:
            report = json.load(open(out))
        except Exception:
            report = None
    if report is None and os.path.exists(out + ".violations"):
        # the worker died before writing its report: keep the violations it had found until then
        vs = []
        for line in open(out + ".violations"):
            try:
                vs.append(json.loads(line))
            except Exception:
                pass
        if vs:
            report = {"evaluations": 0, "nontrivial": [], "counters": {}, "maxima": {}, "sets": {}, "samples": [], "violations": vs, "known": []}
    last_case, finished = None, False
    if os.path.exists(journal):
        lines = open(journal).read().split()
        if lines:
            finished = lines[-1] == "done"
            nums = [l for l in lines if l.isdigit()]
            if nums:
                last_case = int(nums[-1])
    err = open(errf, "rb").read().decode("utf-8", "replace")
    return {"tag": tag, "rc": rc, "timed_out": timed_out, "report": report, "stderr": err, "last_case": last_case, "finished": finished, "wall": time.time() - t0}


SANITIZER_MARKS = [
    ("unsafe precondition(s) violated", "std unsafe-precondition check (debug-assertion build) fired"),
    ("ERROR: AddressSanitizer", "AddressSanitizer report"),
    ("ERROR: LeakSanitizer", "LeakSanitizer report"),
    ("WARNING: ThreadSanitizer", "ThreadSanitizer report"),
    ("Undefined Behavior", "Miri: undefined behaviour"),
    ("error: unsupported operation", "Miri: unsupported operation"),
    ("Data race detected", "Miri: data race"),
    ("memory leaked", "Miri: memory leak"),
    ("panic in a function that cannot unwind", "non-unwinding panic (abort)"),
]


def classify_abnormal(w):
    """-> (kind, text) where kind in {'violation','inconclusive'}"""
    err = w["stderr"]
    for mark, text in SANITIZER_MARKS:
        if mark in err:
            if "unsupported operation" in mark:
                return "inconclusive", text
            return "violation", text
    if "CASE-TIMEOUT" in err or w["rc"] == 98:
        # a single case did not come back (wall clock, generous): for C10 a construction that does
        # not return on a valid collection is a refuting event; elsewhere it only means that the
        # property could not be evaluated
        return "hang", "a case did not finish within the per-case wall-clock limit"
    if w["timed_out"]:
        return "inconclusive", "watchdog timeout"
    rc = w["rc"]
    if rc in (-signal.SIGABRT, -signal.SIGSEGV, -signal.SIGBUS, -signal.SIGILL, -signal.SIGFPE, 134, 139):
        return "violation", "worker died with signal/abort (rc=%s)" % rc
    if rc == -signal.SIGKILL:
        return "inconclusive", "worker was killed (OOM?)"
    if rc == 3:
        return "inconclusive", "harness self-test failed"
    return "inconclusive", "worker exited abnormally (rc=%s)" % rc


def merge(reports):
    m = {"evaluations": 0, "nontrivial": set(), "counters": {}, "maxima": {}, "sets": {}, "samples": [], "violations": [], "known": []}
    for r in reports:
        m["evaluations"] += r.get("evaluations", 0)
        m["nontrivial"].update(r.get("nontrivial", []))
        for k, v in r.get("counters", {}).items():
            if k == "cases_planned_total":
                m["counters"][k] = max(m["counters"].get(k, 0), v)
            else:
                m["counters"][k] = m["counters"].get(k, 0) + v
        for k, v in r.get("maxima", {}).items():
            if v is not None:
                m["maxima"][k] = max(m["maxima"].get(k, float("-inf")), v)
        for k, v in r.get("sets", {}).items():
            m["sets"].setdefault(k, set()).update(v)
        m["samples"].extend(r.get("samples", []))
        m["violations"].extend(r.get("violations", []))
        m["known"].extend(r.get("known", []))
    return m


def load_known():
    p = os.path.join(VERIF, "known_findings.json")
    try:
        return json.load(open(p)).get("findings", [])
    except Exception:
        return []


def write_evidence(prop, tier, seed, coverage, assumptions, wall, violations):
    os.makedirs(os.path.join(OUT, "evidence"), exist_ok=True)
    ev = {
        "property_id": prop,
        "tier": tier,
        "seed": seed,
        "level": "exploration",
        "coverage": coverage,
        "assumptions": assumptions,
        "wall_s": round(wall, 2),
        "violations": violations,
    }
    path = os.path.join(OUT, "evidence", prop + ".json")
    tmp = path + ".tmp.%d" % os.getpid()
    with open(tmp, "w") as f:
        json.dump(ev, f, indent=1, ensure_ascii=False)
        f.write("\n")
    os.replace(tmp, path)
    return path


def write_replay(prop, name, obj):
    d = os.path.join(OUT, "replays")
    os.makedirs(d, exist_ok=True)
    path = os.path.join(d, name)
    with open(path, "w") as f:
        json.dump(obj, f, indent=1, ensure_ascii=False)
        f.write("\n")
    return path


def finish(prop, tier, seed, t0, coverage, assumptions, violation_lines, known_lines, inconclusive):
    wall = time.time() - t0
    ev = write_evidence(prop, tier, seed, coverage, assumptions, wall, len(violation_lines))
    for l in known_lines:
        log(l)
    for l in violation_lines:
        log(l)
    log("evidence: %s (evaluations=%s distinct_nontrivial=%s wall=%.1fs)" % (ev, coverage.get("evaluations"), coverage.get("distinct_nontrivial"), wall))
    if violation_lines:
        return 1
    if inconclusive:
        for r in inconclusive:
            log("INCONCLUSIVE property=%s reason=%s" % (prop, r))
        return 2
    log("HELD property=%s tier=%s seed=%d" % (prop, tier, seed))
    return 0


FUZZ_PROPS = ["C01", "C02", "C03", "C04", "C05", "C06", "C07", "C08", "C09", "C10", "C11", "C12", "C13", "C15"]


def run_fuzz_stage(prop, seed, outdir, seconds):
    """Coverage-guided workload (thorough tier): libFuzzer drives the generator decisions of the same
    monitors. Returns (stats, violation replay objects, notes)."""
    stats, viols, notes = {}, [], []
    try:
        binary = build_variant("fuzz")[0]
    except BuildError as e:
        log(str(e))
        return stats, viols, ["libFuzzer target could not be built (coverage-guided stage skipped)"]
    fdir = os.path.join(outdir, "fuzz")
    corpus = os.path.join(TARGET, "fuzz-corpus", prop)
    os.makedirs(fdir, exist_ok=True)
    os.makedirs(corpus, exist_ok=True)
    env = dict(BASE_ENV)
    env["DV_FUZZ_PROP"] = prop
    env["ASAN_OPTIONS"] = "detect_leaks=0:abort_on_error=1"
    cmd = [binary, corpus, "-max_total_time=%d" % seconds, "-timeout=60", "-max_len=2048", "-len_control=0", "-fork=%d" % NCPU,
           "-seed=%d" % (seed % (1 << 31)), "-artifact_prefix=" + fdir + "/", "-ignore_timeouts=1", "-ignore_ooms=1", "-ignore_crashes=1"]
    t0 = time.time()
    try:
        p = subprocess.run(cmd, cwd=fdir, env=env, stdout=subprocess.PIPE, stderr=subprocess.STDOUT, text=True, timeout=seconds + 600)
        out = p.stdout
    except subprocess.TimeoutExpired as e:
        out = (e.stdout or b"").decode("utf-8", "replace") if isinstance(e.stdout, bytes) else (e.stdout or "")
        notes.append("libFuzzer did not stop in time")
    last = None
    for line in out.splitlines():
        m = re.match(r"#(\d+): cov: (\d+) ft: (\d+) corp: (\d+)", line)
        if m:
            last = m
    if last:
        stats = {"fuzz_executions": int(last.group(1)), "fuzz_coverage_edges": int(last.group(2)), "fuzz_features": int(last.group(3)), "fuzz_corpus_size": int(last.group(4))}
    stats["fuzz_seconds"] = round(time.time() - t0, 1)
    arts = sorted(f for f in os.listdir(fdir) if f.startswith(("crash-", "timeout-", "oom-", "leak-")))
    stats["fuzz_timeout_or_oom_artifacts"] = len([a for a in arts if not a.startswith("crash-")])
    for a in [a for a in arts if a.startswith("crash-")][:6]:
        ap = os.path.join(fdir, a)
        r = subprocess.run([binary, ap], cwd=fdir, env=env, stdout=subprocess.PIPE, stderr=subprocess.STDOUT, text=True, timeout=600)
        text = r.stdout
        if r.returncode != 0 and ("MONITOR-VIOLATION" in text or "AddressSanitizer" in text or "unsafe precondition" in text or "panicked" in text):
            keep = os.path.join(OUT, "replays")
            os.makedirs(keep, exist_ok=True)
            dst = os.path.join(keep, "%s-fuzz-%s.bin" % (prop, a[6:18]))
            shutil.copy(ap, dst)
            what = [l for l in text.splitlines() if "MONITOR-VIOLATION" in l or "ERROR: AddressSanitizer" in l or "panicked" in l][:2]
            viols.append({"artifact": dst, "what": " | ".join(what)[:1500]})
        else:
            notes.append("crash artifact %s did not reproduce" % a)
    return stats, viols, notes


def run_rust_property(prop, tier, seed):
    t0 = time.time()
    groups = plan(prop, tier)
    if os.environ.get("VERIF_ONLY_DBG") == "1":  # mutation-trial matrix only
        groups = [g for g in groups if g[0] in ("dbg", "rel")]
    outdir = os.path.join(OUT, "runs", "%s-%s-%d-%d" % (prop, tier, seed, os.getpid()))
    shutil.rmtree(outdir, ignore_errors=True)
    os.makedirs(outdir)
    inconclusive = []
    argvs = {}
    for variant in sorted(set(g[0] for g in groups)):
        try:
            argvs[variant] = build_variant(variant)
        except BuildError as e:
            log(str(e))
            inconclusive.append("build of variant %s failed" % variant)
    jobs = []
    scale = os.environ.get("VERIF_SCALE")  # mutation-trial matrix only (tools/matrix.py); never set by registered commands
    for (variant, mode, nprocs, extra) in groups:
        if variant not in argvs:
            continue
        if scale:
            extra = extra + ["--scale", scale]
        for sh in range(nprocs):
            argv = argvs[variant] + ["worker", "--prop", prop, "--tier", tier, "--seed", str(seed), "--shard", str(sh), "--nshards", str(nprocs), "--mode", mode, "--flavour", variant] + extra
            timeout = 10800 if tier == "thorough" else 3600
            jobs.append((argv, variant_env(variant), "%s-%02d" % (variant, sh), timeout, variant, mode, extra))
    # heavy (native) workers first so that the slow single-threaded miri ones overlap with them
    results = []
    with ThreadPoolExecutor(max_workers=NCPU) as ex:
        futs = [(ex.submit(run_worker, j[0], j[1], outdir, j[2], j[3]), j) for j in jobs]
        for f, j in futs:
            w = f.result()
            w["variant"], w["mode"], w["extra"] = j[4], j[5], j[6]
            results.append(w)

    reports, violation_lines, known_lines = [], [], []
    proc_by_variant = {}
    sanitizer_reports = 0
    for w in results:
        proc_by_variant[w["variant"]] = proc_by_variant.get(w["variant"], 0) + 1
        ok = w["rc"] == 0 and w["report"] is not None and w["finished"]
        if ok:
            reports.append(w["report"])
            continue
        kind, text = classify_abnormal(w)
        if kind == "hang":
            kind = "violation" if prop == "C10" else "inconclusive"
        tail = "\n".join(w["stderr"].splitlines()[-60:])
        if kind == "violation":
            sanitizer_reports += 1
            rp = write_replay(prop, "%s-%s-seed%d-%s-case%s.json" % (prop, tier, seed, w["tag"], w["last_case"]), {
                "property": prop, "tier": tier, "seed": seed, "variant": w["variant"], "mode": w["mode"], "extra": w["extra"],
                "case_idx": w["last_case"], "kind": "abnormal-exit", "what": text, "rc": w["rc"], "stderr_tail": tail,
                "how_to_replay": "./check %s --replay <this file>" % prop,
            })
            log("--- worker %s: %s while running case %s ---\n%s\n---" % (w["tag"], text, w["last_case"], "\n".join(tail.splitlines()[-25:])))
            violation_lines.append("VIOLATION property=%s replay=%s" % (prop, rp))
        else:
            log("--- worker %s: %s (rc=%s, last case %s) ---\n%s\n---" % (w["tag"], text, w["rc"], w["last_case"], "\n".join(tail.splitlines()[-15:])))
            inconclusive.append("%s: %s" % (w["tag"], text))
        if w["report"] is not None:
            reports.append(w["report"])

    m = merge(reports)
    # monitor violations
    seen = set()
    for v in m["violations"]:
        key = (v["monitor"], v["case_idx"])
        if key in seen:
            continue
        seen.add(key)
        # which variant observed it: re-derive from the flavour is not needed; replay runs in dbg (or rel for C10)
        rp = write_replay(prop, "%s-%s-seed%d-case%d-%s.json" % (prop, tier, seed, v["case_idx"], re.sub(r"[^a-z0-9]+", "-", v["monitor"].lower())), {
            "property": prop, "tier": tier, "seed": seed, "variant": "dbg", "mode": "native", "extra": [],
            "case_idx": v["case_idx"], "kind": "monitor", "monitor": v["monitor"], "message": v["message"], "detail": v["detail"],
            "how_to_replay": "./check %s --replay <this file>" % prop,
        })
        log("violation: [%s] case %d: %s" % (v["monitor"], v["case_idx"], v["message"]))
        violation_lines.append("VIOLATION property=%s replay=%s" % (prop, rp))
        if len(violation_lines) >= 8:
            break
    # known findings
    known = {k["id"]: k for k in load_known() if k.get("property") == prop}
    kseen = set()
    for k in m["known"]:
        fid = k["finding_id"]
        if fid in kseen:
            continue
        kseen.add(fid)
        entry = known.get(fid)
        if entry and entry.get("status") == "open":
            known_lines.append("KNOWN-FINDING: property=%s %s: %s (observed %d times in this run, e.g. case %d: %s)" % (
                prop, fid, entry.get("signature", ""), m["counters"].get("known_finding_%s_observed" % fid, 1), k["case_idx"], k["message"]))
        else:
            rp = write_replay(prop, "%s-%s-seed%d-case%d-known-%s.json" % (prop, tier, seed, k["case_idx"], fid), {
                "property": prop, "tier": tier, "seed": seed, "variant": "dbg", "mode": "native", "extra": [],
                "case_idx": k["case_idx"], "kind": "monitor", "message": k["message"] + " (matches finding %s, which is not listed as open in known_findings.json)" % fid,
            })
            violation_lines.append("VIOLATION property=%s replay=%s" % (prop, rp))

    fuzz_stats = {}
    if tier == "thorough" and prop in FUZZ_PROPS and not violation_lines and os.environ.get("VERIF_NO_FUZZ") != "1":
        fuzz_stats, fv, fnotes = run_fuzz_stage(prop, seed, outdir, int(os.environ.get("VERIF_FUZZ_SECONDS", "90")))
        for v in fv:
            rp = write_replay(prop, "%s-thorough-seed%d-fuzz-%s.json" % (prop, seed, os.path.basename(v["artifact"])[:-4]), {
                "property": prop, "tier": tier, "seed": seed, "kind": "fuzz", "artifact": v["artifact"], "what": v["what"],
                "how_to_replay": "./check %s --replay <this file>" % prop})
            log("violation: [coverage-guided] %s" % v["what"][:400])
            violation_lines.append("VIOLATION property=%s replay=%s" % (prop, rp))
        for nmsg in fnotes:
            log("note: " + nmsg)
    c = m["counters"]
    if c.get("harness_errors", 0):
        inconclusive.append("harness errors: %s" % sorted(m["sets"].get("harness_errors", []))[:3])
    if c.get("library_panics_outside_this_property", 0):
        inconclusive.append("the library panicked in %d case(s) at a point this property says nothing about (C01-C06/C10 decide panics); e.g. %s" % (
            c["library_panics_outside_this_property"], sorted(m["sets"].get("library_panics", []))[:2]))
    if c.get("build_failed_on_valid_input", 0) and prop != "C10":
        inconclusive.append("the builder rejected %d valid pattern set(s) (C10's business); e.g. %s" % (c["build_failed_on_valid_input"], sorted(m["sets"].get("build_errors", []))[:2]))
    floor = FLOOR_OVERRIDE.get((prop, tier), FLOORS[tier])
    if scale:
        floor = max(2, int(floor * float(scale) * 0.5))
    if len(m["nontrivial"]) < floor and not violation_lines:
        inconclusive.append("only %d distinct non-trivial cases observed (floor %d)" % (len(m["nontrivial"]), floor))
    if prop == "C11" and c.get("automata_with_block_eviction", 0) == 0:
        inconclusive.append("no automaton with blocks > num_free_blocks was observed")
    if prop == "C13" and m["maxima"].get("max_step_ratio", 0) < 1.5:
        inconclusive.append("weak coverage: max steps/bytes ratio %.2f < 1.5" % m["maxima"].get("max_step_ratio", 0))
    if prop == "C14" and c.get("overlapping_op_pairs", 0) == 0:
        inconclusive.append("no overlapping operations of different threads were observed")

    coverage = {
        "evaluations": m["evaluations"],
        "distinct_nontrivial": len(m["nontrivial"]),
        "rule": RULES[prop],
        "samples": m["samples"][:6],
        "exhaustive": False,
        "counters": dict(sorted(c.items())),
        "maxima": {k: v for k, v in sorted(m["maxima"].items())},
        "observed_sets": {k: (sorted(v) if len(v) <= 80 else {"count": len(v), "first": sorted(v)[:20]}) for k, v in sorted(m["sets"].items()) if k not in ("interleaving_signatures",)},
        "worker_processes": proc_by_variant,
        "sanitizer_reports": sanitizer_reports,
        "coverage_guided_stage": fuzz_stats,
        "cases_planned_per_variant": c.get("cases_planned_total"),
    }
    if "interleaving_signatures" in m["sets"]:
        coverage["distinct_interleavings"] = len(m["sets"]["interleaving_signatures"])
    assumptions = list(ASSUMPTIONS_COMMON)
    if any(g[0] == "miri" for g in groups):
        assumptions.append("Miri workloads are small and keep pattern characters below U+0800 (mapper-table cost); high code points are covered by the dbg/asan variants")
    rc = finish(prop, tier, seed, t0, coverage, assumptions, violation_lines, known_lines, inconclusive)
    if rc == 0:
        shutil.rmtree(outdir, ignore_errors=True)
    return rc


def replay(prop, path):
    r = json.load(open(path))
    if r.get("property") != prop:
        log("replay file is for property %s" % r.get("property"))
    if prop == "C16":
        import cli16
        return cli16.replay(r)
    if r.get("kind") == "fuzz":
        try:
            argv = build_variant("dbg")
        except BuildError as e:
            log(str(e))
            return 2
        env = dict(BASE_ENV)
        env["DV_FUZZ_PROP"] = prop
        p = subprocess.run(argv + ["fuzz-replay", r["artifact"]], cwd=HARNESS, env=env)
        if p.returncode == 0:
            return 0
        log("VIOLATION property=%s replay=%s" % (prop, path))
        return 1
    variant = r.get("variant", "dbg")
    try:
        argv = build_variant(variant)
    except BuildError as e:
        log(str(e))
        return 2
    if r.get("case_idx") is None:
        log("replay file has no case index (worker died before its first case)")
        return 2
    cmd = argv + ["replay", "--prop", prop, "--tier", r["tier"], "--seed", str(r["seed"]), "--mode", r.get("mode", "native"), "--case", str(r["case_idx"]), "--flavour", variant] + r.get("extra", [])
    p = subprocess.run(cmd, cwd=HARNESS, env=variant_env(variant))
    if p.returncode == 0:
        return 0
    if p.returncode == 1 or p.returncode < 0 or p.returncode in (66, 97, 134, 139):
        log("VIOLATION property=%s replay=%s" % (prop, path))
        return 1
    return 2


def main(argv):
    if "--setup" in argv:
        rc = 0
        for v in ("dbg", "rel"):
            try:
                build_variant(v)
                log("built " + v)
            except BuildError as e:
                log(str(e))
                rc = 2
        try:
            build_cli()
            log("built daacfind (dev, release)")
        except BuildError as e:
            log(str(e))
            rc = 2
        for v in ("asan", "miri", "tsan"):
            try:
                build_variant(v)
                log("built " + v)
            except BuildError as e:
                log(str(e))  # not fatal for setup: the checks report it themselves
        return rc
    args = [a for a in argv if not a.startswith("--")]
    if not args or args[0] not in PROPS:
        log(__doc__)
        return 2
    prop = args[0]

    def opt(name, default=None):
        if name in argv:
            i = argv.index(name)
            if i + 1 < len(argv):
                return argv[i + 1]
        return default

    if "--replay" in argv:
        return replay(prop, opt("--replay"))
    tier = opt("--tier", os.environ.get("VERIF_TIER", "quick"))
    if tier not in ("quick", "thorough"):
        tier = "quick"
    try:
        seed = int(opt("--seed", os.environ.get("VERIF_SEED", "1")))
    except ValueError:
        seed = int(hashlib.sha256(str(os.environ.get("VERIF_SEED")).encode()).hexdigest()[:12], 16)
    seed &= (1 << 63) - 1
    if prop == "C16":
        import cli16
        return cli16.run(tier, seed)
    return run_rust_property(prop, tier, seed)


if __name__ == "__main__":
    sys.path.insert(0, os.path.dirname(os.path.abspath(__file__)))
    sys.exit(main(sys.argv[1:]))
