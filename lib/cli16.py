"""C16: black-box monitor of the real `daacfind` binaries (dev and release builds of /repo).

Events observed: exit status, stderr, and the exact stdout bytes of every invocation. Oracle:
naive substring search per input line; SGR state machine for --color=always.
"""
import os, sys, json, time, random, subprocess, shutil, re, base64
from concurrent.futures import ThreadPoolExecutor

import driver as D

ASCII = list("abcxyz01 ")
MULTI = ["é", "ß", "あ", "世", "界", "😀", "ж", " ", "　", "Ａ"]
PUNCT = list(".:-_/\\*?[](){}|\"'$#%&=+~^,;<>!@`")


def rand_token(rng, alphabet, lo=1, hi=4):
    return "".join(rng.choice(alphabet) for _ in range(rng.randint(lo, hi)))


def gen_patterns(rng):
    mode = rng.random()
    if mode < 0.35:
        alpha = list("ab")
    elif mode < 0.6:
        alpha = list("abc") + [rng.choice(MULTI)]
    elif mode < 0.8:
        alpha = ASCII + MULTI[:4]
    else:
        alpha = ASCII + MULTI + PUNCT + ["\t"]
    n = rng.randint(1, 6)
    pats = []
    for _ in range(n * 3):
        if len(pats) >= n:
            break
        r = rng.random()
        if pats and r < 0.45:
            base = rng.choice(pats)
            k = rng.random()
            if k < 0.25:
                p = base + rand_token(rng, alpha, 1, 2)          # base is a prefix
            elif k < 0.5:
                p = rand_token(rng, alpha, 1, 2) + base          # base is a suffix
            elif k < 0.75:
                p = rand_token(rng, alpha, 1, 2) + base + rand_token(rng, alpha, 1, 2)  # base strictly inside
            else:
                i = rng.randrange(len(base))
                p = base[i:] + rand_token(rng, alpha, 1, 2)      # overlap bait
        elif r < 0.55:
            p = rand_token(rng, alpha, 1, 3) + rng.choice([" ", "\t", "  "])   # trailing whitespace
        elif r < 0.6:
            p = rng.choice([" ", "\t", "  ", " \t"])                            # whitespace only
        elif r < 0.65:
            p = rng.choice([" ", "\t"]) + rand_token(rng, alpha, 1, 3)          # leading whitespace
        else:
            p = rand_token(rng, alpha, 1, 4)
        if p and p not in pats and "\n" not in p and "\r" not in p:
            pats.append(p)
    return pats, alpha


def gen_lines(rng, pats, alpha, nmax=40, keep_cr=False):
    n = rng.choice([0, 1, 2, 3, 5, 8, 13, 20, nmax])
    lines = []
    noise = alpha + list("qrstuv") + MULTI[:3]
    for _ in range(n):
        r = rng.random()
        if r < 0.12:
            lines.append("")
            continue
        parts = []
        for _ in range(rng.randint(1, 6)):
            k = rng.random()
            if k < 0.4:
                parts.append(rng.choice(pats))
            elif k < 0.55:
                p = rng.choice(pats)
                parts.append(p[: rng.randint(0, len(p))])
            elif k < 0.65:
                p = rng.choice(pats)
                parts.append(p[rng.randint(0, len(p)):])
            elif k < 0.72:
                p = rng.choice(pats)
                parts.append(p.rstrip() if rng.random() < 0.5 else p.strip())   # pattern minus its whitespace
            else:
                parts.append(rand_token(rng, noise, 1, 5))
        line = "".join(parts)
        if rng.random() < 0.3:
            line = rand_token(rng, list("qrstuv "), 1, 6) if rng.random() < 0.5 else line.replace(rng.choice(pats), "")
        line = line.replace("\n", "").replace("\x1b", "")
        if keep_cr:
            if line.endswith("\r"):
                line += rng.choice(["x", " ", "é"])     # never a CR right before the line's LF
        else:
            line = line.replace("\r", "")
        lines.append(line)
    return lines


def gen_deep_chain(rng, idx):
    """A long chain of patterns, each a proper prefix of the next (depth 100..600), via -f, coloured:
    hundreds of occurrences cover the same byte."""
    unit = rng.choice(["a", "ab", "é", "あb"])
    depth = rng.choice([100, 127, 128, 129, 200, 255, 256, 257, 300, 512, 600])
    pats = [unit * k for k in range(1, depth + 1)]
    rng.shuffle(pats)
    longest = unit * depth
    lines = [longest, "x" + longest + "y", unit * (depth // 2), "none", longest + longest]
    rng.shuffle(lines)
    return {"idx": idx, "f_pats": pats, "p_pats": [], "stdin": rng.random() < 0.5, "inputs": [lines], "names": ["in1.txt"],
            "flags": ["--color=always"] + (["-n"] if rng.random() < 0.5 else []), "color": True, "auto": False}


def gen_big_input(rng, idx):
    """Inputs of 8..200 KiB (beyond one I/O buffer), mostly multi-byte text, so that characters and
    lines straddle every internal buffer boundary."""
    pats, alpha = gen_patterns(rng)
    pats = [q for q in pats if "\r" not in q] or ["ab"]
    filler = rng.choice(["日本語のテキスト", "żółć gęślą jaźń ", "😀😀😀 emoji ", "plain ascii text ", "é"])
    target = rng.choice([8192, 8192, 16384, 65536, 200000]) + rng.randint(-40, 40)
    lines, size = [], 0
    while size < target:
        k = rng.random()
        if k < 0.15:
            line = filler * rng.randint(0, 4) + rng.choice(pats) + filler * rng.randint(0, 3)
        elif k < 0.2:
            line = ""
        else:
            line = (filler * rng.randint(1, 12))[rng.randint(0, 2):]
            for q in pats:
                line = line.replace(q, "")
        line = line.replace("\n", "").replace("\r", "")
        lines.append(line)
        size += len(line.encode()) + 1
    stdin_mode = rng.random() < 0.3
    flags = [rng.choice(["--color=always", "--color=never", "-n"])]
    return {"idx": idx, "f_pats": pats, "p_pats": [], "stdin": stdin_mode, "inputs": [lines], "names": ["in1.txt"],
            "flags": flags, "color": flags[0] == "--color=always", "auto": False}


def gen_invocation(rng, idx):
    if rng.random() < 0.01:
        return gen_deep_chain(rng, idx)
    if rng.random() < 0.02:
        return gen_big_input(rng, idx)
    pats, alpha = gen_patterns(rng)
    # carriage returns are ordinary bytes inside a pattern given with -p (only "\n" separates -p
    # patterns); input lines may contain them anywhere but at their end (BufRead::lines strips "\r\n")
    cr = rng.random() < 0.06
    if cr:
        k = rng.randrange(len(pats))
        pats[k] = pats[k] + "\r" if rng.random() < 0.6 else pats[k][:1] + "\r" + pats[k][1:]
        pats = list(dict.fromkeys(pats))
    # delivery: -p "a\nb\n..." and/or -f FILE. Constraints of the harness (not of the tool): the -p
    # value must not look like an option (first pattern must not start with '-'); a pattern that
    # contains a CR must go through -p (a CR at the end of a -f line is stripped by BufRead::lines);
    # a pattern with NUL must go through -f (argv cannot carry NUL).
    nul = False
    cr_pats = [q for q in pats if "\r" in q]
    if cr_pats and not any(not q.startswith("-") for q in pats):
        pats = list(dict.fromkeys([q.replace("\r", "") for q in pats if q.replace("\r", "")]))
        cr_pats, cr = [], False
    if cr_pats:
        first = rng.choice([q for q in pats if not q.startswith("-")])
        rest = [q for q in pats if q is not first]
        keep_p = [q for q in rest if "\r" in q or rng.random() < 0.5]
        p_pats = [first] + keep_p
        f_pats = [q for q in rest if q not in keep_p]
    else:
        via = rng.choice(["p", "f", "both"]) if len(pats) >= 2 else rng.choice(["p", "f"])
        if via == "f" and rng.random() < 0.08:
            pats = list(dict.fromkeys(pats + ["a\x00b"]))
            nul = True
        if via == "both":
            k = rng.randint(1, len(pats) - 1)
            f_pats, p_pats = pats[:k], pats[k:]
        elif via == "p":
            f_pats, p_pats = [], list(pats)
        else:
            f_pats, p_pats = list(pats), []
        if p_pats and p_pats[0].startswith("-"):
            ok = [q for q in p_pats if not q.startswith("-")]
            if ok:
                p_pats = [ok[0]] + [q for q in p_pats if q is not ok[0]]
            else:
                f_pats, p_pats = f_pats + p_pats, []
    stdin_mode = rng.random() < 0.4
    nfiles = 0 if stdin_mode else rng.randint(1, 3)
    inputs = []
    for _ in range(max(1, nfiles)):
        lines = gen_lines(rng, pats, alpha, keep_cr=cr)
        if nul and lines:
            lines[rng.randrange(len(lines))] += "a\x00b"
        inputs.append(lines)
    groups = []
    if rng.random() < 0.5:
        groups.append([rng.choice(["-n", "--line-number"])])
    if rng.random() < 0.4:
        groups.append([rng.choice(["-h", "--no-filename"])])
    color = rng.choice(["none", "never", "always", "always", "always", "auto"])
    if color != "none":
        if rng.random() < 0.25:
            groups.append(["--color", color])          # space-separated form
        else:
            groups.append(["--color=" + color])
    rng.shuffle(groups)
    flags = [f for g in groups for f in g]
    names = rng.sample(["in1.txt", "b.log", "データ.txt", "with space.txt", "x"], max(1, nfiles))
    return {"idx": idx, "f_pats": f_pats, "p_pats": p_pats, "stdin": stdin_mode, "inputs": inputs, "names": names[: max(1, nfiles)], "flags": flags, "color": color == "always", "auto": color == "auto"}


def occurrences(pats_b, line_b):
    occ = []
    for p in pats_b:
        start = 0
        while True:
            i = line_b.find(p, start)
            if i < 0:
                break
            occ.append((i, i + len(p)))
            start = i + 1
    return occ


SGR = re.compile(rb"\x1b\[([0-9;]*)m")
CSI = re.compile(rb"\x1b\[[0-9;?]*[@-~]")


def parse_sgr(raw, attrs=None):
    """-> list of (byte, highlighted); `attrs` is the SGR state carried over from the bytes printed
    before (a terminal does not forget colours at a newline); raises ValueError on a stray ESC"""
    out = []
    if attrs is None:
        attrs = set()
    i = 0
    while i < len(raw):
        if raw[i] == 0x1B:
            m = SGR.match(raw, i)
            if not m:
                # other CSI sequences (e.g. ESC[K, erase to end of line, which GNU grep emits next to
                # its colours) do not change what is highlighted: skip them
                c = CSI.match(raw, i)
                if c:
                    i = c.end()
                    continue
                raise ValueError("unparsable escape sequence at byte %d" % i)
            params = m.group(1).split(b";") if m.group(1) else [b"0"]
            for prm in params:
                if prm in (b"", b"0"):
                    attrs.clear()
                elif prm == b"39":
                    for a in [a for a in attrs if a.startswith(b"3") or a.startswith(b"9")]:
                        attrs.discard(a)
                elif prm == b"49":
                    for a in [a for a in attrs if a.startswith(b"4")]:
                        attrs.discard(a)
                elif prm == b"22":
                    attrs.discard(b"1")
                else:
                    attrs.add(prm)
            i = m.end()
        else:
            out.append((raw[i], bool(attrs)))
            i += 1
    return out


def check_invocation(inv, binary, workdir, use_valgrind=False):
    """Runs the real binary and checks its output. -> (ok, message, stats, observed)"""
    os.makedirs(workdir, exist_ok=True)
    argv = [binary]
    pats = inv["f_pats"] + inv["p_pats"]
    if inv["f_pats"]:
        pf = os.path.join(workdir, "patterns.txt")
        with open(pf, "wb") as f:
            f.write(("\n".join(inv["f_pats"]) + "\n").encode())
        argv += ["-f", pf]
    if inv["p_pats"]:
        argv += ["-p", "\n".join(inv["p_pats"])]
    argv += inv["flags"]
    stdin_data = None
    paths = []
    if inv["stdin"]:
        stdin_data = "".join(l + "\n" for l in inv["inputs"][0]).encode()
    else:
        for name, lines in zip(inv["names"], inv["inputs"]):
            pth = os.path.join(workdir, name)
            with open(pth, "wb") as f:
                f.write("".join(l + "\n" for l in lines).encode())
            paths.append(pth)
        argv += paths
    cmd = argv
    if use_valgrind:
        cmd = ["valgrind", "-q", "--error-exitcode=99", "--errors-for-leak-kinds=definite"] + argv
    env = dict(os.environ)
    env.pop("NO_COLOR", None)
    env["TERM"] = "xterm"
    try:
        p = subprocess.run(cmd, input=stdin_data if stdin_data is not None else b"", stdout=subprocess.PIPE, stderr=subprocess.PIPE, timeout=120 if not use_valgrind else 600, env=env)
    except subprocess.TimeoutExpired:
        return None, "timeout", {}, {}
    observed = {"argv": argv, "exit": p.returncode, "stdout": p.stdout, "stderr": p.stderr}
    stats = {"printed": 0, "suppressed": 0, "overlap_lines": 0, "highlighted_bytes": 0}
    err = p.stderr.decode("utf-8", "replace")
    if "panicked" in err:
        return False, "the tool panicked: " + err.strip().splitlines()[0][:300], stats, observed
    if use_valgrind and p.returncode == 99:
        return False, "valgrind memcheck reported an error: " + err.strip()[-600:], stats, observed
    if p.returncode != 0:
        return False, "exit status %d on a valid invocation; stderr: %s" % (p.returncode, err.strip()[:300]), stats, observed
    pats_b = [x.encode() for x in pats]
    no_filename = any(f in ("-h", "--no-filename") for f in inv["flags"])
    numbered = any(f in ("-n", "--line-number") for f in inv["flags"])
    expected = []  # (path or None, line index, bytes)
    sources = [(None, inv["inputs"][0])] if inv["stdin"] else list(zip(paths, inv["inputs"]))
    for path, lines in sources:
        for i, l in enumerate(lines):
            lb = l.encode()
            if any(pb in lb for pb in pats_b):
                expected.append((path, i, lb))
                stats["printed"] += 1
            else:
                stats["suppressed"] += 1
    out = p.stdout
    if out and not out.endswith(b"\n"):
        return False, "output does not end with a newline", stats, observed
    got_lines = out.split(b"\n")[:-1] if out else []
    if len(got_lines) != len(expected):
        return False, "%d lines printed, %d input lines contain a pattern" % (len(got_lines), len(expected)), stats, observed
    base = None
    sgr_state = set()  # carried across lines, as a terminal would
    for k, (raw, (path, i, lb)) in enumerate(zip(got_lines, expected)):
        try:
            cells = parse_sgr(raw, sgr_state)
        except ValueError as e:
            return False, "output line %d: %s" % (k, e), stats, observed
        plain = bytes(c for c, _ in cells)
        pos = 0
        if path is not None and not no_filename:
            pre = path.encode() + b":"
            if plain.startswith(pre):
                pos = len(pre)
        elif path is not None and no_filename:
            pre = path.encode() + b":"
            if plain.startswith(pre) and not lb.startswith(pre):
                return False, "output line %d carries a file-name prefix although -h/--no-filename was given" % k, stats, observed
        if numbered:
            m = re.match(rb"(\d+):", plain[pos:])
            if not m:
                return False, "output line %d: no line-number prefix although -n was given: %r" % (k, plain[:80]), stats, observed
            num = int(m.group(1))
            b = num - i
            if b not in (0, 1) or (base is not None and b != base):
                return False, "output line %d: line number %d for input line index %d (numbering base %s so far)" % (k, num, i, base), stats, observed
            base = b
            pos += m.end()
        text = plain[pos:]
        if text != lb:
            return False, "output line %d: text %r differs from input line %d %r (or an unrelated/suppressed line was printed)" % (k, text[:120], i, lb[:120]), stats, observed
        # --color=auto: whether colouring is enabled is the tool's decision (stdout is a pipe here); if
        # it emits any escape sequence on this run it is held to the colouring clause, otherwise to the plain one
        coloured = inv["color"] or (inv.get("auto") and b"\x1b" in out)
        if not coloured:
            if any(h for _, h in cells):
                return False, "output line %d is highlighted without --color=always" % k, stats, observed
            if len(cells) != len(raw):
                return False, "output line %d contains escape sequences without --color=always" % k, stats, observed
        else:
            hl = [h for _, h in cells[pos:]]
            occ = occurrences(pats_b, lb)
            diff = [0] * (len(lb) + 1)
            for (s, e) in occ:
                diff[s] += 1
                diff[e] -= 1
            want, depth = [], 0
            for j in range(len(lb)):
                depth += diff[j]
                want.append(depth > 0)
            if any(h for _, h in cells[:pos]):
                return False, "output line %d: the prefix is highlighted" % k, stats, observed
            if hl != want:
                j = next(j for j in range(len(lb)) if hl[j] != want[j])
                return False, "output line %d: byte %d of %r is %s but %s be (occurrences %s)" % (
                    k, j, lb[:120], "highlighted" if hl[j] else "not highlighted", "must not" if hl[j] else "must", occ[:8]), stats, observed
            stats["highlighted_bytes"] += sum(want)
            so = sorted(occ)
            if any(so[a + 1][0] < so[a][1] for a in range(len(so) - 1)):
                stats["overlap_lines"] += 1
    return True, "", stats, observed


def inv_json(inv, observed=None, message=None, build=None):
    j = {k: inv[k] for k in ("idx", "f_pats", "p_pats", "stdin", "inputs", "names", "flags", "color")}
    j["auto"] = bool(inv.get("auto"))
    if observed:
        j["observed"] = {"argv": observed.get("argv"), "exit": observed.get("exit"),
                         "stdout": observed.get("stdout", b"").decode("utf-8", "backslashreplace")[:4000],
                         "stderr": observed.get("stderr", b"").decode("utf-8", "backslashreplace")[:2000]}
    if message:
        j["message"] = message
    if build:
        j["build"] = build
    return j


def run(tier, seed):
    t0 = time.time()
    prop = "C16"
    inconclusive = []
    try:
        bins = D.build_cli()
    except D.BuildError as e:
        D.log(str(e))
        return D.finish(prop, tier, seed, t0, {"evaluations": 0, "distinct_nontrivial": 0, "rule": D.RULES[prop], "samples": []}, [], [], [], ["daacfind could not be built"])
    n = 1500 if tier == "quick" else 20000
    if os.environ.get("VERIF_SCALE"):
        n = max(50, int(n * float(os.environ["VERIF_SCALE"])))
    outdir = os.path.join(D.OUT, "runs", "C16-%s-%d-%d" % (tier, seed, os.getpid()))
    shutil.rmtree(outdir, ignore_errors=True)
    os.makedirs(outdir)
    invs = []
    for i in range(n):
        rng = random.Random("C16/%d/%d" % (seed, i))
        invs.append(gen_invocation(rng, i))
    fixed = [
        {"idx": -1, "f_pats": [], "p_pats": ["abc"], "stdin": True, "inputs": [["abc", "xyz", "xabcx"]], "names": ["-"], "flags": [], "color": False},
    ]
    invs = fixed + invs

    def job(args):
        inv, build = args
        wd = os.path.join(outdir, "%s_%d" % (build, inv["idx"]))
        res = check_invocation(inv, bins[build], wd)
        shutil.rmtree(wd, ignore_errors=True)
        return inv, build, res

    tasks = [(inv, b) for inv in invs for b in ("dev", "release")]
    violation_lines, samples = [], []
    nontrivial = set()
    counters = {"invocations": 0, "dev_invocations": 0, "release_invocations": 0, "lines_printed": 0, "lines_suppressed": 0, "colour_invocations": 0,
                "colour_lines_with_overlapping_occurrences": 0, "highlighted_bytes": 0, "stdin_invocations": 0, "file_invocations": 0,
                "patterns_via_-p": 0, "patterns_via_-f": 0, "patterns_via_both": 0, "valgrind_invocations": 0}
    flags_seen = set()
    with ThreadPoolExecutor(max_workers=D.NCPU) as ex:
        for inv, build, (ok, msg, stats, observed) in ex.map(job, tasks):
            counters["invocations"] += 1
            counters[build + "_invocations"] += 1
            if ok is None:
                inconclusive.append("invocation %d (%s): %s" % (inv["idx"], build, msg))
                continue
            counters["lines_printed"] += stats.get("printed", 0)
            counters["lines_suppressed"] += stats.get("suppressed", 0)
            counters["highlighted_bytes"] += stats.get("highlighted_bytes", 0)
            counters["colour_lines_with_overlapping_occurrences"] += stats.get("overlap_lines", 0)
            counters["colour_invocations"] += 1 if inv["color"] else 0
            counters["stdin_invocations" if inv["stdin"] else "file_invocations"] += 1
            counters["patterns_via_both" if (inv["f_pats"] and inv["p_pats"]) else ("patterns_via_-f" if inv["f_pats"] else "patterns_via_-p")] += 1
            flags_seen.add(" ".join(sorted(inv["flags"])) or "(none)")
            if not ok:
                if len(violation_lines) < 8:
                    rp = D.write_replay(prop, "C16-%s-seed%d-inv%d-%s.json" % (tier, seed, inv["idx"], build),
                                        {"property": prop, "tier": tier, "seed": seed, "kind": "cli", "invocation": inv_json(inv, observed, msg, build)})
                    D.log("violation: [%s build] invocation %d: %s" % (build, inv["idx"], msg))
                    violation_lines.append("VIOLATION property=%s replay=%s" % (prop, rp))
                continue
            if (stats["printed"] >= 1 and stats["suppressed"] >= 1) or (inv["color"] and stats["overlap_lines"] >= 1):
                nontrivial.add(json.dumps(inv_json(inv), sort_keys=True, ensure_ascii=False))
                if len(samples) < 4 and build == "dev":
                    samples.append(inv_json(inv, observed))
    # sanitizer observer (thorough): valgrind memcheck on a sample of release invocations
    if tier == "thorough" and shutil.which("valgrind"):
        sample = [inv for inv in invs if inv["idx"] >= 0][:40]

        def vjob(inv):
            wd = os.path.join(outdir, "vg_%d" % inv["idx"])
            res = check_invocation(inv, bins["release"], wd, use_valgrind=True)
            shutil.rmtree(wd, ignore_errors=True)
            return inv, res
        with ThreadPoolExecutor(max_workers=D.NCPU) as ex:
            for inv, (ok, msg, stats, observed) in ex.map(vjob, sample):
                counters["valgrind_invocations"] += 1
                if ok is None:
                    inconclusive.append("valgrind invocation %d: %s" % (inv["idx"], msg))
                elif not ok and len(violation_lines) < 8:
                    rp = D.write_replay(prop, "C16-%s-seed%d-inv%d-valgrind.json" % (tier, seed, inv["idx"]),
                                        {"property": prop, "tier": tier, "seed": seed, "kind": "cli", "invocation": inv_json(inv, observed, msg, "release"), "valgrind": True})
                    D.log("violation: [valgrind] invocation %d: %s" % (inv["idx"], msg))
                    violation_lines.append("VIOLATION property=%s replay=%s" % (prop, rp))
    shutil.rmtree(outdir, ignore_errors=True)
    floor = D.FLOOR_OVERRIDE.get((prop, tier), D.FLOORS[tier])
    if len(nontrivial) < floor and not violation_lines:
        inconclusive.append("only %d distinct non-trivial invocations (floor %d)" % (len(nontrivial), floor))
    coverage = {
        "evaluations": counters["invocations"],
        "distinct_nontrivial": len(nontrivial),
        "rule": D.RULES[prop],
        "samples": samples,
        "exhaustive": False,
        "counters": counters,
        "flag_combinations_seen": sorted(flags_seen),
        "binaries": bins,
    }
    assumptions = [
        "verdict is 'held on the invocations observed'",
        "inputs avoid CR, ESC and NUL-in-argv; every line is LF-terminated valid UTF-8; -p values never start with '-'",
        "a file-name prefix is accepted (not required) when files are given without -h; the line-number base (0 or 1) is not constrained, only its consistency",
    ]
    return D.finish(prop, tier, seed, t0, coverage, assumptions, violation_lines, [], inconclusive)


def replay(r):
    inv = r["invocation"]
    bins = D.build_cli()
    build = inv.get("build", "dev")
    wd = os.path.join(D.OUT, "runs", "C16-replay-%d" % os.getpid())
    ok, msg, stats, observed = check_invocation(inv, bins[build], wd, use_valgrind=bool(r.get("valgrind")))
    print(json.dumps(inv_json(inv, observed, msg, build), indent=1, ensure_ascii=False))
    shutil.rmtree(wd, ignore_errors=True)
    if ok:
        print("no violation reproduced")
        return 0
    print("reproduced: " + str(msg))
    return 1
