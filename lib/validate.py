#!/usr/bin/env python3
"""Validates MANIFEST.json and evidence/*.json against the schemas in /root/.vp (uses the tooling venv's jsonschema)."""
import json, sys, glob, os
import jsonschema
V = os.path.dirname(os.path.dirname(os.path.abspath(__file__)))
ms = json.load(open('/root/.vp/MANIFEST.schema.json'))
es = json.load(open('/root/.vp/EVIDENCE.schema.json'))
jsonschema.validate(json.load(open(V + '/MANIFEST.json')), ms)
print('MANIFEST ok')
for f in sorted(glob.glob(V + '/evidence/*.json')):
    jsonschema.validate(json.load(open(f)), es)
    e = json.load(open(f))
    print(os.path.basename(f), 'ok', e['tier'], 'eval', e['coverage']['evaluations'], 'nontrivial', e['coverage']['distinct_nontrivial'], 'wall', e['wall_s'])
